// rapidcheck engine: generates decoder inputs (byte strings), runs the harness
// oracle, lets rapidcheck shrink failures at byte level.  The last failing
// input seen (= the shrunk one) is written to $VH_FAIL.
#include <rapidcheck.h>

#include <cstdio>
#include <cstdlib>
#include <cstring>
#include <dirent.h>
#include <string>
#include <vector>
#include <fcntl.h>
#include <sys/mman.h>
#include <unistd.h>
#include <signal.h>

extern "C" {
const char *vh_name(void);
int vh_run(const uint8_t *data, size_t size);
const char *vh_last_sig(void);
const char *vh_last_detail(void);
size_t vh_wrap_raw(const uint8_t *doc, size_t n, unsigned variant, uint8_t *out, size_t cap);
void vh_dump_stats(const char *path);
void vh_set_quiet(int q);
}

static std::vector<std::vector<uint8_t>> g_corpus;
static uint8_t *g_cur = nullptr;  // MAP_SHARED scratch: [u32 len][bytes] of the case about to run
static size_t g_cur_cap = 0;

static void load_corpus(const char *dir) {
    DIR *d = opendir(dir);
    if (!d) return;
    std::vector<std::string> names;
    while (dirent *e = readdir(d)) {
        if (e->d_name[0] == '.') continue;
        names.push_back(e->d_name);
    }
    closedir(d);
    std::sort(names.begin(), names.end());
    for (auto &n : names) {
        std::string p = std::string(dir) + "/" + n;
        FILE *f = fopen(p.c_str(), "rb");
        if (!f) continue;
        std::vector<uint8_t> b;
        uint8_t buf[4096];
        size_t k;
        while ((k = fread(buf, 1, sizeof buf, f)) > 0) b.insert(b.end(), buf, buf + k);
        fclose(f);
        if (b.size() <= 4096) g_corpus.push_back(b);
    }
}

static void on_alarm(int) { _exit(77); }  // a case ran into the per-case watchdog: the driver picks the case up from VH_CUR

static void note_current(const std::vector<uint8_t> &v) {
    if (!g_cur) return;
    uint32_t n = (uint32_t)std::min(v.size(), g_cur_cap - 4);
    memcpy(g_cur + 4, v.data(), n);
    memcpy(g_cur, &n, 4);
}

int main() {
    const char *stats = getenv("VH_STATS");
    const char *failp = getenv("VH_FAIL");
    const char *curp = getenv("VH_CUR");
    int maxlen = getenv("VH_MAXLEN") ? atoi(getenv("VH_MAXLEN")) : 256;
    if (const char *c = getenv("VH_CORPUS")) {
        // colon separated directories
        std::string s = c;
        size_t i = 0;
        while (i <= s.size()) {
            size_t j = s.find(':', i);
            if (j == std::string::npos) j = s.size();
            if (j > i) load_corpus(s.substr(i, j - i).c_str());
            i = j + 1;
        }
    }
    if (curp) {
        g_cur_cap = 1 << 20;
        int fd = open(curp, O_RDWR | O_CREAT | O_TRUNC, 0644);
        if (fd >= 0 && ftruncate(fd, (off_t)g_cur_cap) == 0) {
            void *m = mmap(nullptr, g_cur_cap, PROT_READ | PROT_WRITE, MAP_SHARED, fd, 0);
            if (m != MAP_FAILED) g_cur = (uint8_t *)m;
        }
        if (fd >= 0) close(fd);
    }

    using Bytes = std::vector<uint8_t>;
    // uniform bytes; the length follows rapidcheck's size (0..max_size), so early cases are small
    auto byteGen = rc::gen::resize(1000, rc::gen::map(rc::gen::inRange<int>(0, 256), [](int x) { return (uint8_t)x; }));
    auto plain = rc::gen::container<Bytes>(byteGen);
    // a few low bytes up front make decoders' selector bytes cover all alternatives evenly; then free bytes
    rc::Gen<Bytes> gen = plain;
    if (!g_corpus.empty()) {
        size_t nc = g_corpus.size();
        auto spliced = rc::gen::mapcat(
            rc::gen::tuple(rc::gen::resize(1000, rc::gen::inRange<size_t>(0, nc)), rc::gen::resize(1000, rc::gen::inRange<unsigned>(0, 10))),
            [plain](const std::tuple<size_t, unsigned> &t) {
                const Bytes &doc = g_corpus[std::get<0>(t)];
                Bytes head(doc.size() + 16);
                size_t n = vh_wrap_raw(doc.data(), doc.size(), std::get<1>(t), head.data(), head.size());
                head.resize(n);
                return rc::gen::map(plain, [head](const Bytes &tail) {
                    Bytes r = head;
                    r.insert(r.end(), tail.begin(), tail.end());
                    return r;
                });
            });
        gen = rc::gen::weightedOneOf<Bytes>({{7, plain}, {1, spliced}});
    }
    (void)maxlen;

    FILE *save = getenv("VH_SAVE_CORPUS") ? fopen(getenv("VH_SAVE_CORPUS"), "wb") : nullptr;
    int case_timeout = getenv("VH_CASE_TIMEOUT") ? atoi(getenv("VH_CASE_TIMEOUT")) : 0;
    if (case_timeout > 0) signal(SIGALRM, on_alarm);
    bool failed_once = false;
    bool ok = rc::check(vh_name(), [&]() {
        Bytes v = *gen;
        note_current(v);
        if (save && !failed_once) { uint32_t n = (uint32_t)v.size(); fwrite(&n, 4, 1, save); fwrite(v.data(), 1, v.size(), save); }
        if (failed_once) vh_set_quiet(1);  // shrinking: keep the counters of the search itself
        if (case_timeout > 0) alarm((unsigned)case_timeout);
        int r = vh_run(v.data(), v.size());
        if (case_timeout > 0) alarm(0);
        if (r != 0) {
            failed_once = true;
            if (failp) {
                FILE *f = fopen(failp, "wb");
                if (f) { fwrite(v.data(), 1, v.size(), f); fclose(f); }
                std::string sp = std::string(failp) + ".sig";
                f = fopen(sp.c_str(), "w");
                if (f) { fprintf(f, "%s\n%s\n", vh_last_sig(), vh_last_detail()); fclose(f); }
            }
            RC_FAIL(std::string(vh_last_sig()) + ": " + vh_last_detail());
        }
    });
    if (save) fclose(save);
    vh_dump_stats(stats);
    return ok ? 0 : 1;
}
