// libFuzzer engine: coverage-guided mutation of the same decoder inputs.
#include <cstdint>
#include <cstdio>
#include <cstdlib>
#include <cstring>
#include <string>

extern "C" {
int vh_run(const uint8_t *data, size_t size);
const char *vh_last_sig(void);
const char *vh_last_detail(void);
void vh_dump_stats(const char *path);
}

static void at_exit_dump() { vh_dump_stats(getenv("VH_STATS")); }

extern "C" int LLVMFuzzerInitialize(int *, char ***) {
    atexit(at_exit_dump);
    return 0;
}

extern "C" int LLVMFuzzerTestOneInput(const uint8_t *data, size_t size) {
    if (vh_run(data, size) != 0) {
        if (const char *failp = getenv("VH_FAIL")) {
            FILE *f = fopen(failp, "wb");
            if (f) { fwrite(data, 1, size, f); fclose(f); }
            std::string sp = std::string(failp) + ".sig";
            f = fopen(sp.c_str(), "w");
            if (f) { fprintf(f, "%s\n%s\n", vh_last_sig(), vh_last_detail()); fclose(f); }
        }
        fprintf(stderr, "ORACLE-FAILURE %s: %s\n", vh_last_sig(), vh_last_detail());
        vh_dump_stats(getenv("VH_STATS"));
        __builtin_trap();
    }
    return 0;
}
