// Plain replay (no generator library): decode a saved case, print it, run the oracle.
//   replay <file>            exit 0 = passes, 1 = oracle failure (sanitizer reports abort with their own code)
//   replay --sig <file>      print only the failure signature (for the minimiser)
//   replay --mkseeds <corpusdir> <outdir>   wrap corpus documents into decoder inputs (libFuzzer seeds)
//   replay --enum <shard> <nshards> <tier>  run the bounded-exhaustive enumerator slice
#include <cstdint>
#include <cstdio>
#include <cstdlib>
#include <cstring>
#include <dirent.h>
#include <algorithm>
#include <string>
#include <vector>

extern "C" {
const char *vh_name(void);
int vh_run(const uint8_t *data, size_t size);
const char *vh_last_sig(void);
const char *vh_last_detail(void);
void vh_describe(const uint8_t *data, size_t size, FILE *out);
size_t vh_wrap_raw(const uint8_t *doc, size_t n, unsigned variant, uint8_t *out, size_t cap);
int vh_enumerate(int shard, int nshards, const char *tier);
void vh_dump_stats(const char *path);
void vh_set_quiet(int q);
uint64_t vh_digest(const uint8_t *data, size_t n, int *nontrivial);
}

static std::vector<uint8_t> slurp(const char *p) {
    std::vector<uint8_t> b;
    FILE *f = fopen(p, "rb");
    if (!f) { perror(p); exit(2); }
    uint8_t buf[65536];
    size_t k;
    while ((k = fread(buf, 1, sizeof buf, f)) > 0) b.insert(b.end(), buf, buf + k);
    fclose(f);
    return b;
}

int main(int argc, char **argv) {
    if (argc >= 4 && !strcmp(argv[1], "--mkseeds")) {
        DIR *d = opendir(argv[2]);
        if (!d) return 0;
        std::vector<std::string> names;
        while (dirent *e = readdir(d)) if (e->d_name[0] != '.') names.push_back(e->d_name);
        closedir(d);
        std::sort(names.begin(), names.end());
        unsigned k = 0;
        for (auto &n : names) {
            std::vector<uint8_t> doc = slurp((std::string(argv[2]) + "/" + n).c_str());
            std::vector<uint8_t> out(doc.size() + 64);
            size_t m = vh_wrap_raw(doc.data(), doc.size(), k++, out.data(), out.size());
            if (!m) continue;
            FILE *f = fopen((std::string(argv[3]) + "/" + n).c_str(), "wb");
            if (f) { fwrite(out.data(), 1, m, f); fclose(f); }
        }
        return 0;
    }
    if (argc >= 5 && !strcmp(argv[1], "--enum")) {
        int r = vh_enumerate(atoi(argv[2]), atoi(argv[3]), argv[4]);
        vh_dump_stats(getenv("VH_STATS"));
        if (r > 0) {
            printf("ORACLE-FAILURE %s: %s\n", vh_last_sig(), vh_last_detail());
            if (const char *failp = getenv("VH_FAIL")) {
                FILE *f = fopen((std::string(failp) + ".sig").c_str(), "w");
                if (f) { fprintf(f, "%s\n%s\n", vh_last_sig(), vh_last_detail()); fclose(f); }
            }
            return 1;
        }
        return 0;
    }
    if (argc >= 4 && !strcmp(argv[1], "--digest")) {
        // corpus file: repeated [u32 len][bytes]; output: per scenario [u64 digest][u8 nontrivial]
        std::vector<uint8_t> c = slurp(argv[2]);
        FILE *o = fopen(argv[3], "wb");
        if (!o) return 2;
        setvbuf(o, nullptr, _IONBF, 0);  // every record reaches the file at once: after an abort the file tells which scenario was running
        size_t i = 0, k = 0;
        while (i + 4 <= c.size()) {
            uint32_t n;
            memcpy(&n, &c[i], 4);
            i += 4;
            if (i + n > c.size()) break;
            int nt = 0;
            uint64_t d = vh_digest(c.data() + i, n, &nt);
            uint8_t rec[9];
            memcpy(rec, &d, 8);
            rec[8] = (uint8_t)nt;
            fwrite(rec, 9, 1, o);
            i += n;
            k++;
        }
        fclose(o);
        printf("%zu scenarios\n", k);
        return 0;
    }
    bool sig_only = argc >= 3 && !strcmp(argv[1], "--sig");
    if (argc < 2) { fprintf(stderr, "usage: replay [--sig] <file>\n"); return 2; }
    std::vector<uint8_t> b = slurp(argv[argc - 1]);
    if (!sig_only) {
        printf("harness %s, case of %zu bytes\n", vh_name(), b.size());
        vh_describe(b.data(), b.size(), stdout);
        fflush(stdout);
    }
    int r = vh_run(b.data(), b.size());
    if (r != 0) {
        if (sig_only) printf("%s\n", vh_last_sig());
        else printf("ORACLE-FAILURE %s: %s\n", vh_last_sig(), vh_last_detail());
        fflush(stdout);
        return 1;
    }
    if (!sig_only) printf("PASS\n");
    return 0;
}
