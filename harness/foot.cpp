// C17: no heap, no recursion / variable-size stack objects, no writable
// statics, no interference between objects - checked through their observable
// consequences on generated executions of the UNINSTRUMENTED library, built as
// a shared object per configuration (gcc -O0/-O2/-Os x with/without print):
//  (1) allocator: every allocator symbol referenced by the library objects is
//      redirected (objcopy --redefine-sym) to counting wrappers defined here;
//  (2) stack: every library call runs on a private painted stack; the
//      high-water mark per entry point must not grow with nesting depth,
//      payload length or element count (same case, scaled);
//  (3) writable statics: the RW segment(s) of the shared object are
//      snapshotted around every case and must not change;
//  (4) non-interference: two parsers and two writers stepped in a generated
//      interleaving give the same traces as when run alone.
#include <sys/mman.h>
#include <ucontext.h>

#include <functional>

#include "apiops.hpp"
#include "wops.hpp"

// ---- (1) allocator wrappers -------------------------------------------------
static uint64_t g_alloc_calls = 0;
static bool g_in_library = false;
extern "C" {
__attribute__((visibility("default"))) void *vhwrap_malloc(size_t n) { g_alloc_calls++; return malloc(n); }
__attribute__((visibility("default"))) void *vhwrap_calloc(size_t a, size_t b) { g_alloc_calls++; return calloc(a, b); }
__attribute__((visibility("default"))) void *vhwrap_realloc(void *p, size_t n) { g_alloc_calls++; return realloc(p, n); }
__attribute__((visibility("default"))) void vhwrap_free(void *p) { g_alloc_calls++; free(p); }
__attribute__((visibility("default"))) void *vhwrap_aligned_alloc(size_t a, size_t n) { g_alloc_calls++; return aligned_alloc(a, n); }
__attribute__((visibility("default"))) int vhwrap_posix_memalign(void **p, size_t a, size_t n) { g_alloc_calls++; return posix_memalign(p, a, n); }
__attribute__((visibility("default"))) char *vhwrap_strdup(const char *s) { g_alloc_calls++; return strdup(s); }
__attribute__((visibility("default"))) void *vhwrap_mmap(void *a, size_t n, int pr, int fl, int fd, off_t off) { g_alloc_calls++; return mmap(a, n, pr, fl, fd, off); }
__attribute__((visibility("default"))) void *vhwrap_sbrk(intptr_t d) { g_alloc_calls++; return sbrk(d); }
__attribute__((visibility("default"))) void *vhwrap_alloca(size_t n) { g_alloc_calls++; return malloc(n); }
}

// ---- (3) RW segments of the library -----------------------------------------
struct Seg { uint8_t *lo, *hi; Bytes snap; };
static std::vector<Seg> g_segs;
static void find_segments() {
    static bool done = false;
    if (done) return;
    done = true;
    FILE *f = fopen("/proc/self/maps", "r");
    if (!f) return;
    char line[1024];
    while (fgets(line, sizeof line, f)) {
        if (!strstr(line, "libbinsonverif")) continue;
        unsigned long lo, hi;
        char perm[8];
        if (sscanf(line, "%lx-%lx %7s", &lo, &hi, perm) == 3 && perm[1] == 'w') g_segs.push_back(Seg{(uint8_t *)lo, (uint8_t *)hi, Bytes()});
    }
    fclose(f);
}
static void snap_segments() { for (auto &s : g_segs) s.snap.assign(s.lo, s.hi); }
static bool segments_changed(size_t *off) {
    for (auto &s : g_segs)
        for (size_t i = 0; i < s.snap.size(); i++) if (s.lo[i] != s.snap[i]) { *off = i; return true; }
    return false;
}

// ---- (2) painted private stack -----------------------------------------------
static const size_t kStk = 512 * 1024;
static uint8_t *g_stk = nullptr;
static ucontext_t g_main, g_ctx;
static std::function<void()> *g_fn = nullptr;
static void tramp() { (*g_fn)(); }
static size_t g_painted_from = 0;  // everything in [0, g_painted_from) is painted

static size_t on_stack(std::function<void()> fn) {
    if (!g_stk) {
        g_stk = (uint8_t *)mmap(nullptr, kStk, PROT_READ | PROT_WRITE, MAP_PRIVATE | MAP_ANONYMOUS, -1, 0);
        memset(g_stk, 0xC5, kStk);
        g_painted_from = kStk;
    }
    if (g_painted_from < kStk) { memset(g_stk + g_painted_from, 0xC5, kStk - g_painted_from); g_painted_from = kStk; }
    g_fn = &fn;
    getcontext(&g_ctx);
    g_ctx.uc_stack.ss_sp = g_stk;
    g_ctx.uc_stack.ss_size = kStk;
    g_ctx.uc_link = &g_main;
    makecontext(&g_ctx, tramp, 0);
    swapcontext(&g_main, &g_ctx);
    size_t i = 0;
    const uint64_t pat = 0xC5C5C5C5C5C5C5C5ULL;
    while (i + 8 <= kStk && *(const uint64_t *)(g_stk + i) == pat) i += 8;
    g_painted_from = i;
    return kStk - i;
}

// entry points measured
enum EP { E_INIT, E_VERIFY, E_INTO, E_NEXT, E_LEAVE, E_SKIP, E_FIELD_HIT, E_FIELD_MISS, E_RAW, E_TOWRITER, E_TO_STRING, E_TO_STRING_NULL, E_PRINT, E_W_BEGIN_END, E_W_INT, E_W_STR, E_W_RAW, E_N };
static const char *kEP[] = {"init", "verify", "go_into", "next", "leave", "next(skip-container)", "field(hit)", "field(miss)", "get_raw", "to_writer", "to_string", "to_string(NULL)", "print", "write_begin/end", "write_integer/double/boolean", "write_string/bytes/name", "write_raw"};

struct Marks {
    size_t hw[E_N];
    Marks() { memset(hw, 0, sizeof hw); }
    void up(int e, size_t v) { if (v > hw[e]) hw[e] = v; }
};

struct Shape {
    unsigned objs, arrs, elems;
    size_t slen, nlen;  // string payload length, name length of the deep field
    size_t blen;        // length of the bytes field of the outer object
    unsigned embed;     // > 0: that bytes field holds a valid Binson object whose bytes field holds a valid object ... this many levels
    unsigned mix = 0;   // 1: every nested object is the single element of an array: {"a":[{"a":[{...}]}]} (objects as array elements)
};

// {"a":{"a":...{"a":[[...[ e1, e2, ... ]...]], "z": "<slen>" }...}} ; the innermost array holds `elems` elements cycling int/double/bool/string
static Value build(const Shape &sh) {
    Value arr;
    arr.k = ref::K_ARR;
    for (unsigned i = 0; i < sh.elems; i++) {
        Value e;
        switch (i % 4) {
        case 0: e.k = ref::K_INT; e.i = 1234567; break;
        case 1: e.k = ref::K_DBL; e.d = 0x400921fb54442d18ULL; break;
        case 2: e.k = ref::K_BOOL; e.b = true; break;
        default: e.k = ref::K_BYT; e.s = Bytes{1, 2, 3}; break;
        }
        arr.c.push_back(e);
    }
    for (unsigned i = 1; i < sh.arrs; i++) { Value o; o.k = ref::K_ARR; o.c.push_back(std::move(arr)); arr = std::move(o); }
    Value cur = std::move(arr);
    for (unsigned i = 0; i < sh.objs; i++) {
        bool outer = (i + 1 == sh.objs);
        Value o;
        o.k = ref::K_OBJ;
        if (sh.mix && i >= 1) { Value a; a.k = ref::K_ARR; a.c.push_back(std::move(cur)); cur = std::move(a); }
        cur.has_name = true;
        cur.name = outer ? Bytes(sh.nlen ? sh.nlen : 1, 'a') : Bytes{'a'};
        o.c.push_back(std::move(cur));
        if (outer) {
            Value s;
            s.k = ref::K_STR;
            s.has_name = true;
            s.name = Bytes(sh.nlen ? sh.nlen + 1 : 2, 'b');
            s.s = Bytes(sh.slen, 'x');
            o.c.push_back(std::move(s));
            Value b;
            b.k = ref::K_BYT;
            b.has_name = true;
            b.name = Bytes(sh.nlen ? sh.nlen + 2 : 3, 'c');
            b.s = Bytes(sh.blen, 0xab);
            if (sh.embed) {
                Bytes inner{0x40, 0x14, 0x01, 'a', 0x10, 0x01, 0x41};
                for (unsigned e = 1; e < sh.embed; e++) {
                    Bytes o{0x40, 0x14, 0x01, 'a'};
                    ref::put_int(o, 0x18, (int64_t)inner.size());
                    o.insert(o.end(), inner.begin(), inner.end());
                    o.push_back(0x41);
                    inner = o;
                }
                b.s = inner;
            }
            o.c.push_back(std::move(b));
        }
        cur = std::move(o);
    }
    return cur;
}

static void fail_if_alloc(const char *where) {
    if (g_alloc_calls) VH_FAIL("C17/allocator-called", "the library called an allocator function %llu time(s) during %s", (unsigned long long)g_alloc_calls, where);
}

// runs all entry points on the document of this shape, recording stack high-water marks
static void measure(const Shape &sh, Marks &m, const Shape &textsh) {
    Value tree = build(sh);
    Bytes doc = ref::encode(tree);
    unsigned depth = sh.objs;
    PBox pb;
    pb.make(depth, nullptr, 0, 0);
    pb.set_input(doc);
    binson_parser *p = pb.p;
    bool ok = false;
    m.up(E_INIT, on_stack([&] { ok = binson_parser_init_object(p, pb.input.p, pb.input.n); }));
    if (!ok) VH_FAIL("harness/foot-init", "init failed on a built document");
    m.up(E_VERIFY, on_stack([&] { ok = binson_parser_verify(p); }));
    if (!ok) VH_FAIL("harness/foot-verify", "verify failed on a built document (objs %u arrs %u)", sh.objs, sh.arrs);
    // full traversal entering everything
    {
        std::vector<bool> st;
        bool r = false;
        m.up(E_INTO, on_stack([&] { r = binson_parser_go_into_object(p); }));
        st.push_back(true);
        while (!st.empty()) {
            m.up(E_NEXT, on_stack([&] { r = binson_parser_next(p); }));
            if (!r) {
                bool obj = st.back();
                m.up(E_LEAVE, on_stack([&] { r = obj ? binson_parser_leave_object(p) : binson_parser_leave_array(p); }));
                st.pop_back();
                continue;
            }
            binson_type t = binson_parser_get_type(p);
            if (t == BINSON_TYPE_OBJECT) { m.up(E_INTO, on_stack([&] { r = binson_parser_go_into_object(p); })); st.push_back(true); }
            else if (t == BINSON_TYPE_ARRAY) { m.up(E_INTO, on_stack([&] { r = binson_parser_go_into_array(p); })); st.push_back(false); }
        }
        if (p->error_flags != BINSON_ERROR_NONE) VH_FAIL("harness/foot-walk", "traversal error");
    }
    // skipping the whole nested structure with one next / one leave, lookups, raw
    {
        bool r = false;
        binson_parser_reset(p);
        binson_parser_go_into_object(p);
        binson_parser_next(p);  // positioned on the big nested container
        m.up(E_SKIP, on_stack([&] { r = binson_parser_next(p); }));  // skips it, lands on the string field
        binson_parser_reset(p);
        binson_parser_go_into_object(p);
        binson_parser_next(p);
        bbuf raw;
        m.up(E_RAW, on_stack([&] { r = binson_parser_get_raw(p, &raw); }));
        binson_parser_reset(p);
        binson_parser_go_into_object(p);
        binson_parser_next(p);
        Block wb(doc.size());
        binson_writer w;
        binson_writer_init(&w, wb.p, wb.n);
        m.up(E_TOWRITER, on_stack([&] { r = binson_parser_to_writer(p, &w); }));
        binson_parser_reset(p);
        binson_parser_go_into_object(p);
        Bytes hit(tree.c[1].name), miss(tree.c[0].name);
        miss.push_back('!');
        m.up(E_FIELD_MISS, on_stack([&] { r = binson_parser_field_with_length(p, (const char *)miss.data(), miss.size()); }));
        m.up(E_FIELD_HIT, on_stack([&] { r = binson_parser_field_with_length(p, (const char *)hit.data(), hit.size()); }));
        if (!r) VH_FAIL("harness/foot-field", "lookup of a present name failed");
        binson_parser_reset(p);
        binson_parser_go_into_object(p);
        binson_parser_next(p);
        m.up(E_LEAVE, on_stack([&] { r = binson_parser_leave_object(p); }));
    }
#ifdef BINSON_PARSER_WITH_PRINT
    {
        // the text family hands every scalar to libc's formatter, whose own stack use depends on its arguments: these
        // documents scale only nesting and element count, every scalar token keeps its value and length
        Value ttree = build(textsh);
        Bytes tdoc = ref::encode(ttree);
        PBox tb;
        tb.make(textsh.objs, nullptr, 0, 0);
        tb.set_input(tdoc);
        binson_parser *p = tb.p;
        if (!binson_parser_init_object(p, tb.input.p, tb.input.n)) VH_FAIL("harness/foot-init", "init failed on a built document");
        bool r = false;
        size_t sz = 0;
        m.up(E_TO_STRING_NULL, on_stack([&] { r = binson_parser_to_string(p, nullptr, &sz, false); }));
        Block txt(sz);
        size_t cap = sz;
        m.up(E_TO_STRING, on_stack([&] { r = binson_parser_to_string(p, (char *)txt.p, &cap, false); }));
        if (!r) VH_FAIL("harness/foot-to_string", "to_string failed with the reported size");
        fflush(stdout);
        int saved = dup(1);
        if (g_devnull < 0) g_devnull = open("/dev/null", O_WRONLY);
        dup2(g_devnull, 1);
        m.up(E_PRINT, on_stack([&] { r = binson_parser_print(p); }));
        fflush(stdout);
        dup2(saved, 1);
        close(saved);
    }
#endif
    // writer: the whole document through the write calls
    {
        std::vector<WOp> ops;
        ref::flatten(tree, ops);
        Payloads pl(ops);
        Block out(doc.size());
        binson_writer w;
        binson_writer_init(&w, out.p, out.n);
        for (size_t i = 0; i < ops.size(); i++) {
            bool r = false;
            int e = ops[i].k <= ref::W_ARR_E ? E_W_BEGIN_END : ops[i].k <= ref::W_DBL ? E_W_INT : ops[i].k == ref::W_RAW ? E_W_RAW : E_W_STR;
            m.up(e, on_stack([&] { r = do_write(&w, ops[i], *pl.b[i]); }));
            if (!r) VH_FAIL("harness/foot-writer", "write failed");
        }
        if (memcmp(out.p, doc.data(), doc.size()) != 0) VH_FAIL("harness/foot-writer", "writer output differs");
        bool r = false;
        binson_writer_init(&w, out.p, out.n);
        m.up(E_W_RAW, on_stack([&] { r = binson_write_raw(&w, doc.data(), doc.size()); }));
    }
}

static const char *kName = "foot";
static bool g_warm = false;

static void scaling_case(Src &s) {
    Stats &st = stats();
    Shape base;
    base.objs = 1 + s.u8() % 6;
    base.arrs = 1 + s.u8() % 6;
    base.elems = 4 * (1 + s.u8() % 2);  // all four element kinds present at every size
    base.slen = s.u8() % 16;
    base.nlen = 1 + s.u8() % 3;
    base.blen = s.u8() % 8;
    base.embed = 0;
    // which dimensions are scaled, and how far
    uint8_t dims = s.u8();
    if ((dims & 31) == 0) dims |= 1 + s.u8() % 31;
    base.mix = (dims & 32) ? 1 : 0;
    Shape mid = base, big = base;
    if (dims & 1) { mid.objs = base.objs + 20 + s.u8() % 40; big.objs = 200 + s.u8() % 55; }
    if (dims & 2) { mid.arrs = base.arrs + 20 + s.u8() % 40; big.arrs = 200 + s.u8() % 55; }
    if (dims & 4) { mid.elems = base.elems + 48; big.elems = base.elems + 4 * (125 + s.u16() % 375); }
    if (dims & 8) {
        mid.slen = base.slen + 1000; big.slen = 30000 + s.u16() % 35000;
        mid.nlen = base.nlen + 300; big.nlen = 20000 + s.u16() % 10000;
        mid.blen = base.blen + 1000; big.blen = 20000 + s.u16() % 40000;  // also in the text family: print/to_string format bytes one octet per libc call
    }
    if (dims & 16) { base.embed = 1 + s.u8() % 3; mid.embed = 30 + s.u8() % 20; big.embed = 250 + s.u8() % 100; }
    else mid.embed = big.embed = base.embed;
    if (!g_warm) {
        // one warm-up pass per entry point: lazy symbol resolution and stdio buffers cost stack only once
        Marks w;
        Shape tb = big; tb.slen = base.slen; tb.nlen = base.nlen;
        measure(base, w, base);
        measure(big, w, tb);
        g_warm = true;
        g_alloc_calls = 0;
    }
    Marks mb, mm, mg;
    Shape tm = mid, tg = big;
    tm.slen = tg.slen = base.slen;
    tm.nlen = tg.nlen = base.nlen;
    measure(base, mb, base);
    measure(mid, mm, tm);
    measure(big, mg, tg);
    fail_if_alloc("the scaling scenario");
    for (int e = 0; e < E_N; e++) {
        if (!mb.hw[e]) continue;
        size_t lo = std::min(mb.hw[e], std::min(mm.hw[e], mg.hw[e])), hi = std::max(mb.hw[e], std::max(mm.hw[e], mg.hw[e]));
        st.counters[std::string("stack_hw_max_") + kEP[e]] = std::max<uint64_t>(st.counters[std::string("stack_hw_max_") + kEP[e]], hi);
        if (hi - lo > 512)
            VH_FAIL(fmt("C17/stack-grows/%s", kEP[e]),
                    "stack high-water of %s depends on the input: %zu B (objs %u arrs %u elems %u slen %zu nlen %zu blen %zu) vs %zu B (objs %u arrs %u elems %u slen %zu nlen %zu blen %zu) vs %zu B "
                    "(objs %u arrs %u elems %u slen %zu nlen %zu blen %zu)",
                    kEP[e], mb.hw[e], base.objs, base.arrs, base.elems, base.slen, base.nlen, base.blen, mm.hw[e], mid.objs, mid.arrs, mid.elems, mid.slen, mid.nlen, mid.blen, mg.hw[e], big.objs,
                    big.arrs, big.elems, big.slen, big.nlen, big.blen);
    }
    st.nontrivial(mix(mix(mix(base.objs, base.arrs), mix(big.objs, big.arrs)), mix(mix(big.elems, big.slen), dims)));
    st.label(fmt("scaled:%s%s%s%s%s", dims & 1 ? "objects " : "", dims & 2 ? "arrays " : "", dims & 4 ? "elements " : "", dims & 8 ? "payload/name-length " : "", dims & 16 ? "embedded-documents" : "") + (base.mix ? " objects-in-arrays" : ""));
    if (st.want_sample("scaling", 2))
        st.sample("scaling", fmt("base objs %u arrs %u elems %u slen %zu nlen %zu -> big objs %u arrs %u elems %u slen %zu nlen %zu; verify stack %zu/%zu/%zu B", base.objs, base.arrs,
                                 base.elems, base.slen, base.nlen, big.objs, big.arrs, big.elems, big.slen, big.nlen, mb.hw[E_VERIFY], mm.hw[E_VERIFY], mg.hw[E_VERIFY]));
}

static DocOpts dopts() {
    DocOpts o;
    o.cfg.max_nodes = 24;
    o.cfg.max_depth = 6;
    o.cfg.max_fan = 5;
    return o;
}

// (4) two parsers and two writers alone vs interleaved
static void interleave_case(Src &s) {
    Stats &st = stats();
    DocCase da = decode_doc(s, dopts()), db = decode_doc(s, dopts());
    Bytes sa = s.take(40), sb = s.take(40), sched = s.take(80);
    std::vector<WOp> wa = gen_arbitrary_ops(s, false), wb = gen_arbitrary_ops(s, false);
    auto setup = [&](Run &r, const DocCase &d) {
        r.record = true;
        r.doc = d.doc;
        r.pb.make(d.depth, nullptr, 0, 0);
        r.pb.set_input(d.doc);
        r.wbuf.alloc(2 * d.doc.size() + 16);
        binson_writer_init(&r.w, r.wbuf.p, r.wbuf.n);
    };
    auto stepper = [&](Run &r, const DocCase &d, Src &src, unsigned &n) {
        if (n == 0) r.call(d.array_root ? A_INIT_ARR : A_INIT_OBJ, src);
        else if (!src.dry()) { unsigned op = pick(src.u8()); if (op == A_FIELD_NULL) op = A_NEXT; r.call(op, src); }
        n++;
    };
    struct W2 { Block dst; binson_writer w; std::vector<uint64_t> tr; size_t i = 0; };
    auto wstep = [&](W2 &x, const std::vector<WOp> &ops, const Payloads &pl) {
        if (x.i < ops.size()) { bool r = do_write(&x.w, ops[x.i], *pl.b[x.i]); x.tr.push_back(mix(mix(r, binson_writer_get_counter(&x.w)), (uint64_t)x.w.error_flags)); x.i++; }
    };
    Payloads pa(wa), pbb(wb);
    size_t capa = ref::encode_ops(wa).size() / 2 + 4, capb = ref::encode_ops(wb).size() + 4;
    // alone
    Run a1, b1;
    setup(a1, da); setup(b1, db);
    { Src x(sa.data(), sa.size()); unsigned n = 0; for (int i = 0; i < 41; i++) stepper(a1, da, x, n); }
    { Src x(sb.data(), sb.size()); unsigned n = 0; for (int i = 0; i < 41; i++) stepper(b1, db, x, n); }
    W2 wa1, wb1;
    wa1.dst.alloc(capa); wb1.dst.alloc(capb);
    wa1.dst.fill(0x33); wb1.dst.fill(0x33);
    binson_writer_init(&wa1.w, wa1.dst.p, capa); binson_writer_init(&wb1.w, wb1.dst.p, capb);
    for (size_t i = 0; i < wa.size(); i++) wstep(wa1, wa, pa);
    for (size_t i = 0; i < wb.size(); i++) wstep(wb1, wb, pbb);
    // interleaved
    Run a2, b2;
    setup(a2, da); setup(b2, db);
    W2 wa2, wb2;
    wa2.dst.alloc(capa); wb2.dst.alloc(capb);
    wa2.dst.fill(0x33); wb2.dst.fill(0x33);
    binson_writer_init(&wa2.w, wa2.dst.p, capa); binson_writer_init(&wb2.w, wb2.dst.p, capb);
    Src xa(sa.data(), sa.size()), xb(sb.data(), sb.size());
    unsigned na = 0, nb = 0, switches = 0, last = 9;
    for (size_t k = 0; k < 400 && (na < 41 || nb < 41 || wa2.i < wa.size() || wb2.i < wb.size()); k++) {
        unsigned who = k < sched.size() ? sched[k] % 4 : k % 4;
        if (who != last) switches++;
        last = who;
        if (who == 0 && na < 41) stepper(a2, da, xa, na);
        else if (who == 1 && nb < 41) stepper(b2, db, xb, nb);
        else if (who == 2) wstep(wa2, wa, pa);
        else wstep(wb2, wb, pbb);
        if (k >= sched.size()) { if (na < 41) stepper(a2, da, xa, na); if (nb < 41) stepper(b2, db, xb, nb); wstep(wa2, wa, pa); wstep(wb2, wb, pbb); }
    }
    fail_if_alloc("the interleaving scenario");
    if (a1.trace != a2.trace || b1.trace != b2.trace) VH_FAIL("C17/interference/parser", "a parser's observable trace changes when another parser/writer is used in between");
    if (wa1.tr != wa2.tr || wb1.tr != wb2.tr || memcmp(wa1.dst.p, wa2.dst.p, capa) != 0 || memcmp(wb1.dst.p, wb2.dst.p, capb) != 0)
        VH_FAIL("C17/interference/writer", "a writer's results change when another writer/parser is used in between");
    if (switches >= 4) st.nontrivial(mix(mix(fnv(da.doc.data(), da.doc.size()), fnv(db.doc.data(), db.doc.size())), fnv(sched.data(), sched.size())));
    st.label("interleaving");
}

static void run_case(Src &s) {
    find_segments();
    if (g_segs.empty()) VH_FAIL("harness/foot-no-rw-segment-found", "could not locate the shared object in /proc/self/maps");
    snap_segments();
    g_alloc_calls = 0;
    uint8_t h = s.u8();
    if (h % 3 == 2) interleave_case(s);
    else scaling_case(s);
    size_t off = 0;
    if (segments_changed(&off)) VH_FAIL("C17/writable-static-changed", "a byte of the library's writable data segment changed during the case (offset %zu)", off);
    fail_if_alloc("the case");
}

static void describe_case(Src &s, FILE *out) {
    uint8_t h = s.u8();
    fprintf(out, "  %s scenario\n", h % 3 == 2 ? "interleaving" : "scaling");
}

#include "glue.hpp"
