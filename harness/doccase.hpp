// Common "document" part of a case: (bytes, root kind, max_depth) decoded from
// the byte source, either as the encoding of a generated tree, a mutation of
// one, a deep chain, or raw bytes (corpus files, fuzzer bytes, enumerators).
#pragma once
#include "gen.hpp"
#include "pbox.hpp"

namespace vh {

struct DocOpts {
    GenCfg cfg;
    bool allow_invalid = true;  // mutations
    bool allow_raw = true;      // raw bytes (corpus files, fuzzer bytes, enumerator witnesses); harnesses that need valid documents skip invalid ones
    bool allow_chain = true;
    bool force_object_root = false;
    bool depth_sufficient = false;  // choose max_depth so that the generated tree always fits
    unsigned rare_deep = 0;         // >0: the chain classes beyond 256 levels are taken only once in 2^rare_deep (harnesses whose oracle is super-linear in the depth)
};

struct DocCase {
    Bytes doc;
    bool array_root = false;
    unsigned depth = 10;
    unsigned mode = 0;
    bool have_tree = false;  // tree = the valid document before mutation (if any)
    Value tree;
    std::vector<std::string> muts;
};

enum { DM_TREE = 0, DM_MUT = 1, DM_CHAIN = 2, DM_RAW = 3 };

inline unsigned doc_mode(uint8_t b, const DocOpts &o) {
    unsigned m = b % 8;
    if (m <= 2) return DM_TREE;
    if (m <= 4) return o.allow_invalid ? DM_MUT : DM_TREE;
    if (m == 5) return o.allow_chain ? DM_CHAIN : DM_TREE;
    return o.allow_raw ? DM_RAW : DM_TREE;
}

// object levels the library needs for this tree (root object = 1; under an array root the root takes one)
inline unsigned need_depth(const Value &v, bool array_root) {
    struct R {
        static unsigned go(const Value &x) {
            unsigned m = 0;
            for (auto &c : x.c) m = std::max(m, go(c));
            return m + (x.k == ref::K_OBJ ? 1u : 0u);
        }
    };
    return R::go(v) + (array_root ? 1u : 0u);
}

inline DocCase decode_doc(Src &s, const DocOpts &o) {
    DocCase c;
    uint8_t b0 = s.u8();
    c.mode = doc_mode(b0, o);
    uint8_t fl = s.u8();
    c.array_root = o.force_object_root ? false : (fl & 1);
    c.depth = pick_depth(s);
    GenCfg cfg = o.cfg;
    if ((fl & 0xf0) == 0xf0) cfg.big = true;  // one case in 16: payloads and names up to 70000 bytes (16-bit boundary classes)
    switch (c.mode) {
    case DM_TREE:
    case DM_MUT: {
        c.tree = gen_tree(s, cfg, c.array_root);
        c.have_tree = true;
        if (cfg.big && (fl & 0x0c) == 0x0c) {
            // alignment class: a leading string/bytes value sized so that the element after it starts at (or up to 3 bytes
            // before) offset 2^8, 2^15, 2^16-1, 2^16 or 2^16+1 - positions where truncated offsets and counters go wrong
            static const size_t targets[] = {256, 32768, 65535, 65536, 65537};
            size_t T = targets[s.u8() % 5] - (s.u8() % 4);
            bool named = c.tree.k == ref::K_OBJ;
            bool ok = !named || c.tree.c.empty() || !c.tree.c[0].name.empty();
            size_t head = 1 + (named ? 2 : 0);
            if (ok && T > head + 6) {
                size_t L = T - head - 2;                 // try a 1-byte length prefix ...
                if (L > 127) L = T - head - 3;           // ... then 2-byte ...
                if (L > 32767) L = T - head - 5;         // ... then 4-byte
                Value pad;
                pad.k = (fl & 2) ? ref::K_BYT : ref::K_STR;
                pad.has_name = named;
                pad.s.assign(L, (uint8_t)'p');
                c.tree.c.insert(c.tree.c.begin(), pad);
            }
        }
        c.doc = ref::encode(c.tree);
        if (c.mode == DM_MUT) {
            unsigned n = 1 + s.u8() % 3;
            bool structural = s.flag();
            if (structural) {
                const char *l = mutate_structural(c.doc, c.tree, s);
                if (l) c.muts.push_back(l);
                n--;
            }
            for (unsigned i = 0; i < n; i++) c.muts.push_back(mutate_bytes(c.doc, s));
        }
        break;
    }
    case DM_CHAIN: {
        // nesting near the limits: levels around depth, 255, 256
        unsigned sel = s.u8() % 8, levels;
        unsigned cstyle = s.u8() % 8;
        if (sel >= 6 && o.rare_deep && (s.u16() & ((1u << o.rare_deep) - 1)) != 0) sel = 2;
        switch (sel) {
        case 6: levels = 258 + s.u16() % 400; if (cstyle % 4 == 0) cstyle++; break;     // beyond 256 levels (mixed kinds only: the pure chains cannot be valid there)
        case 7: levels = 255 * (1 + s.u8() % 10) + s.u8() % 12; cstyle |= 3; break;        // blocks of 255 arrays under up to 10 objects: up to ~2560 levels
        case 0: levels = c.depth; break;
        case 1: levels = c.depth + 1; break;
        case 2: levels = 254 + s.u8() % 4; break;
        case 3: levels = 1 + s.u8(); break;
        case 4: levels = c.depth > 1 ? c.depth - 1 : 1; break;
        default: levels = 1 + s.u8() % 12; break;
        }
        c.tree = gen_chain(s, levels, c.array_root, cstyle);
        c.have_tree = true;
        c.doc = ref::encode(c.tree);
        if (o.allow_invalid && (s.u8() % 4 == 0)) c.muts.push_back(mutate_bytes(c.doc, s));
        break;
    }
    default: {
        // raw bytes; unless the selector is 0 (corpus files, enumerators) the delimiters are patched in so that
        // most raw cases get past init's first/last-byte test
        uint8_t fix = s.u8();
        size_t len = s.u16();
        c.doc = s.take(len);
        if (fix % 4 != 0) {
            uint8_t b = c.array_root ? 0x42 : 0x40, e = c.array_root ? 0x43 : 0x41;
            if (c.doc.size() < 2) c.doc.resize(2);
            c.doc.front() = b;
            c.doc.back() = e;
        }
        break;
    }
    }
    if (o.depth_sufficient && c.have_tree && c.muts.empty()) {
        unsigned nd = need_depth(c.tree, c.array_root);
        if (nd > 255) nd = 255;
        if (c.depth < nd) c.depth = nd;
    }
    return c;
}

// header for a raw document: mode RAW, root kind and depth chosen by `variant`
inline size_t wrap_raw_doc(const uint8_t *doc, size_t n, unsigned variant, uint8_t *out, size_t cap) {
    if (n > 0xffff || cap < n + 6) return 0;
    size_t k = 0;
    out[k++] = 6;                                  // DM_RAW
    out[k++] = (uint8_t)(variant & 1);             // root kind
    out[k++] = (uint8_t)((variant >> 1) % 5);      // depth selector -> kDepths[]
    out[k++] = 0;                                  // bytes taken verbatim
    out[k++] = (uint8_t)(n & 0xff);
    out[k++] = (uint8_t)(n >> 8);
    if (n) memcpy(out + k, doc, n);
    return k + n;
}

inline std::string describe_doc(const DocCase &c) {
    std::string o = fmt("mode=%u root=%s max_depth=%u len=%zu", c.mode, c.array_root ? "array" : "object", c.depth, c.doc.size());
    for (auto &m : c.muts) o += " " + m;
    o += "\n  doc: " + ref::hex(c.doc, 400);
    if (c.have_tree) o += "\n  tree" + std::string(c.muts.empty() ? "" : "(before mutation)") + ": " + ref::sketch(c.tree);
    return o;
}

}  // namespace vh
