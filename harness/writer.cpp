// C04 / C05 / C09 (writer half).
//   VH_PROP=C04: any write-call sequence x every capacity: exact counter, RANGE iff too small, prefix property, re-run succeeds
//   VH_PROP=C05: well-formed sequences: canonical bytes (reference encoder), verify / writer_verify accept, decode back
//   VH_PROP=C09: after the first failing write everything returns false, nothing more is stored, the counter keeps counting
#include "doccase.hpp"
#include "walk.hpp"
#include "wops.hpp"

using namespace vh;

static const char *prop() {
    static const char *p = getenv("VH_PROP") ? getenv("VH_PROP") : "C04";
    return p;
}
static bool is05() { static bool b = !strcmp(prop(), "C05"); return b; }
static bool is09() { static bool b = !strcmp(prop(), "C09"); return b; }

struct WResult {
    size_t counter;
    int error;
    std::vector<bool> rets;
    Bytes buf;  // the whole destination block afterwards
};

static WResult run_writer(const std::vector<WOp> &ops, const Payloads &pl, size_t cap, uint8_t fill) {
    Block dst(cap);
    dst.fill(fill);
    binson_writer w;
    memset(&w, 0x5A, sizeof w);
    WResult r;
    bool ok = binson_writer_init(&w, dst.p, dst.n);
    (void)ok;
    for (size_t i = 0; i < ops.size(); i++) r.rets.push_back(do_write(&w, ops[i], *pl.b[i]));
    r.counter = binson_writer_get_counter(&w);
    r.error = w.error_flags;
    r.buf.assign(dst.p, dst.p + dst.n);
    return r;
}

// ---------------------------------------------------------------------------
static DocOpts opts(bool big) {
    DocOpts o;
    o.allow_invalid = false;
    o.allow_raw = false;
    o.depth_sufficient = true;
    o.cfg.max_nodes = 24;
    o.cfg.max_depth = 6;
    o.cfg.max_fan = 5;
    o.cfg.big = big;
    return o;
}

// ---------------------------------------------------------------------------
// C04
static void check04(const std::vector<WOp> &ops, Src &s, uint8_t fill) {
    Stats &st = stats();
    std::vector<ref::Piece> pieces;
    Bytes enc = ref::encode_ops(ops, &pieces);
    Payloads pl(ops);
    std::vector<size_t> call_end(ops.size(), 0);
    {
        size_t e = 0, pi = 0;
        for (size_t i = 0; i < ops.size(); i++) {
            while (pi < pieces.size() && pieces[pi].call == i) { e = pieces[pi].off + pieces[pi].len; pi++; }
            call_end[i] = e;
        }
    }
    std::vector<size_t> caps;
    size_t size = enc.size();
    if (size <= 512) for (size_t c = 0; c <= size + 2; c++) caps.push_back(c);
    else {
        caps = {0, 1, size - 1, size, size + 1};
        for (auto &p : pieces) { if (p.off) caps.push_back(p.off - 1); caps.push_back(p.off); caps.push_back(p.off + 1); caps.push_back(p.off + p.len); }
        for (int i = 0; i < 16; i++) caps.push_back(s.u32() % (size + 2));
        std::sort(caps.begin(), caps.end());
        caps.erase(std::unique(caps.begin(), caps.end()), caps.end());
        if (caps.size() > 400) { std::vector<size_t> t; for (size_t i = 0; i < caps.size(); i += caps.size() / 400 + 1) t.push_back(caps[i]); t.push_back(size - 1); t.push_back(size); caps = t; }
    }
    std::string what;
    auto ctx = [&]() { return fmt("ops: %s | reference encoding (%zu bytes): %s", ops_text(ops).c_str(), enc.size(), ref::hex(enc, 120).c_str()); };
    uint64_t h = fnv(enc.data(), enc.size(), ops.size());
    for (size_t c : caps) {
        WResult r = run_writer(ops, pl, c, fill);
        st.count("pairs");
        if (!st.quiet) st.evaluations++;  // one evaluation per (sequence, capacity) pair
        if (r.counter != size) VH_FAIL("C04/counter", "capacity %zu: counter %zu, exact encoded size %zu; %s", c, r.counter, size, ctx().c_str());
        int want = size > c ? BINSON_ERROR_RANGE : BINSON_ERROR_NONE;
        if (r.error != want) VH_FAIL(fmt("C04/error/%s-expected-%s", err_name(r.error), err_name(want)), "capacity %zu size %zu: error %s; %s", c, size, err_name(r.error), ctx().c_str());
        for (size_t i = 0; i < ops.size(); i++) {
            bool e = call_end[i] <= c;
            if (r.rets[i] != e) VH_FAIL(fmt("C04/ret/call=%d-expected=%d", (int)r.rets[i], (int)e), "capacity %zu: call %zu (%s) returned %d; %s", c, i, op_text(ops[i]).c_str(), (int)r.rets[i], ctx().c_str());
        }
        // prefix: up to the last piece that fits before the first that does not, or up to the last whole call that fits
        size_t kp = 0, kc = 0;
        for (auto &p : pieces) { if (p.off + p.len <= c) kp = p.off + p.len; else break; }
        for (size_t i = 0; i < ops.size(); i++) { if (call_end[i] <= c) kc = call_end[i]; else break; }
        auto matches = [&](size_t k) {
            if (memcmp(r.buf.data(), enc.data(), k) != 0) return false;
            for (size_t i = k; i < c; i++) if (r.buf[i] != fill) return false;
            return true;
        };
        if (!(matches(kp) || matches(kc)))
            VH_FAIL("C04/buffer-not-prefix", "capacity %zu: buffer is neither enc[0..%zu)+fill nor enc[0..%zu)+fill: %s; %s", c, kp, kc, ref::hex(r.buf, 120).c_str(), ctx().c_str());
        bool cut_inside = false;
        if (c > 0 && c < size) {
            // the cut falls strictly inside a token (call)
            for (size_t i = 0; i < ops.size(); i++) { size_t b = i ? call_end[i - 1] : 0; if (c > b && c < call_end[i]) cut_inside = true; }
            if (cut_inside) st.nontrivial(mix(h, c));
        }
    }
    // re-run with the reported size
    WResult r = run_writer(ops, pl, size, fill);
    if (r.error != BINSON_ERROR_NONE || r.counter != size || r.buf != enc)
        VH_FAIL("C04/rerun", "re-running with a buffer of the reported size %zu: error %s counter %zu, bytes %s; %s", size, err_name(r.error), r.counter, ref::hex(r.buf, 120).c_str(), ctx().c_str());
    if (size > 512) st.label("size>512");
    if (st.want_sample("sequence", 3)) st.sample("sequence", ctx().substr(0, 500));
}

// ---------------------------------------------------------------------------
// C05
static void check05(Value &tree, bool arr, unsigned depth, const std::vector<WOp> &ops) {
    Stats &st = stats();
    Bytes enc = ref::encode(tree);
    Payloads pl(ops);
    WResult r = run_writer(ops, pl, enc.size(), 0xC3);
    auto ctx = [&]() { return fmt("ops: %s | reference encoding (%zu bytes): %s", ops_text(ops).c_str(), enc.size(), ref::hex(enc, 160).c_str()); };
    for (size_t i = 0; i < ops.size(); i++) if (!r.rets[i]) VH_FAIL("C05/write-failed", "call %zu (%s) returned false with a buffer of the canonical size; %s", i, op_text(ops[i]).c_str(), ctx().c_str());
    if (r.error != BINSON_ERROR_NONE || r.counter != enc.size()) VH_FAIL("C05/size", "counter %zu error %s, canonical size %zu; %s", r.counter, err_name(r.error), enc.size(), ctx().c_str());
    if (r.buf != enc) {
        size_t i = 0;
        while (i < enc.size() && r.buf[i] == enc[i]) i++;
        VH_FAIL("C05/not-canonical", "writer output differs from the canonical encoding at offset %zu: got %s; %s", i, ref::hex(r.buf, 160).c_str(), ctx().c_str());
    }
    // the same sequence on a writer that overflowed before and was reset (a reset that returns true gives a clean writer)
    if (enc.size() >= 2) {
        Block dst2(enc.size());
        dst2.fill(0x3C);
        binson_writer w2;
        binson_writer_init(&w2, dst2.p, dst2.n);
        for (int rep = 0; rep < 2; rep++) for (size_t i = 0; i < ops.size(); i++) do_write(&w2, ops[i], *pl.b[i]);  // twice: overflows
        if (w2.error_flags == BINSON_ERROR_RANGE && binson_writer_reset(&w2)) {
            for (size_t i = 0; i < ops.size(); i++)
                if (!do_write(&w2, ops[i], *pl.b[i])) VH_FAIL("C05/after-reset/write-failed", "call %zu failed on a writer that was reset after an overflow; %s", i, ctx().c_str());
            if (binson_writer_get_counter(&w2) != enc.size() || memcmp(dst2.p, enc.data(), enc.size()) != 0)
                VH_FAIL("C05/after-reset/not-canonical", "a writer that overflowed and was reset does not produce the canonical bytes: %s; %s", ref::hex(dst2.p, dst2.n, 120).c_str(), ctx().c_str());
            st.label("rewritten-after-overflow+reset");
        }
    }
    // accepted by verify with sufficient depth and decodes to the values written - within the depth limits
    // (at most 255 nested objects, at most 255 arrays directly inside one another)
    {
        ref::Rec fit = ref::recognise(enc.data(), enc.size(), arr, depth, false);
        if (!fit.ok) {
            if (fit.ob != ref::OB_DEPTH_OBJ && fit.ob != ref::OB_DEPTH_ARR) VH_FAIL("harness/encoder-vs-recogniser", "reference encoder output rejected by the reference recogniser (%s); %s", fit.why, ctx().c_str());
            st.label("beyond-depth-limits(bytes-only)");
            return;
        }
    }
    PBox pb;
    pb.make(depth, nullptr, 0, 0);
    pb.set_input(r.buf);
    if (!pb.init(arr) || !binson_parser_verify(pb.p)) VH_FAIL("C05/verify-rejects", "binson_parser_verify rejects the writer output (error %s); %s", err_name(pb.p->error_flags), ctx().c_str());
    Walker w(pb, "C05", ctx());
    w.thorough_getters = false;
    w.run(tree);
    // binson_writer_verify: object root, at most 10 nested objects
    unsigned nd = need_depth(tree, arr);
    if (!arr && nd <= 10) {
        Block dst(enc.size());
        binson_writer bw;
        binson_writer_init(&bw, dst.p, dst.n);
        for (size_t i = 0; i < ops.size(); i++) do_write(&bw, ops[i], *pl.b[i]);
        if (!binson_writer_verify(&bw)) VH_FAIL("C05/writer_verify-rejects", "binson_writer_verify rejects a well-formed sequence within its limits; %s", ctx().c_str());
        st.label("writer_verify-checked");
    }
    if (w.ws.wide_int || w.ws.long_len) st.nontrivial(fnv(enc.data(), enc.size()));
    if (w.ws.wide_int) st.label("int>1byte");
    if (w.ws.long_len) st.label("len>=128");
    if (st.want_sample("tree", 3)) st.sample("tree", ctx().substr(0, 500));
}

// ---------------------------------------------------------------------------
// C09 writer half
static void check09(const std::vector<WOp> &ops, Src &s) {
    Stats &st = stats();
    std::vector<ref::Piece> pieces;
    Bytes enc = ref::encode_ops(ops, &pieces);
    Payloads pl(ops);
    std::vector<size_t> call_len(ops.size(), 0);
    for (auto &p : pieces) call_len[p.call] += p.len;
    // capacity below the full size; or an injected NULL error at a chosen call
    unsigned mode = s.u8() % 4;  // 0,1: too small; 2: write_string(NULL) at k; 3: NULL buffer at init
    size_t cap = enc.empty() ? 0 : s.u32() % (enc.size() + 1);
    if (mode == 3) cap = 16;
    size_t knull = ops.empty() ? 0 : s.below((uint32_t)ops.size());
    bool null_raw = s.flag();
    Block dst(cap);
    dst.fill(0x99);
    binson_writer w;
    memset(&w, 0x5A, sizeof w);
    binson_writer_init(&w, mode == 3 ? nullptr : dst.p, dst.n);
    bool latched = w.error_flags != BINSON_ERROR_NONE;
    Bytes snap;
    if (latched) snap.assign(dst.p, dst.p + dst.n);
    unsigned after = 0, would_fit = 0;
    int first_err = w.error_flags;
    std::string hist;
    for (size_t i = 0; i < ops.size(); i++) {
        if (mode == 2 && i == knull) {
            size_t c0 = binson_writer_get_counter(&w);
            bool via_parser = null_raw && (knull & 1);
            bool r = via_parser ? binson_parser_to_writer(nullptr, &w) : null_raw ? binson_write_raw(&w, nullptr, 3) : binson_write_string(&w, nullptr);
            hist += via_parser ? "to_writer(NULL parser); " : null_raw ? "raw(NULL); " : "string(NULL); ";
            if (r) VH_FAIL("C09/w/null-arg/ret=true", "write with a NULL argument returned true; ops: %s", ops_text(ops).c_str());
            if (w.error_flags == BINSON_ERROR_NONE) VH_FAIL("C09/w/null-arg/no-error", "write with a NULL argument set no error");
            if (binson_writer_get_counter(&w) != c0) VH_FAIL("C09/w/null-arg/counter", "counter moved by a refused NULL write");
            if (!latched) { latched = true; first_err = w.error_flags; snap.assign(dst.p, dst.p + dst.n); }
        }
        size_t c0 = binson_writer_get_counter(&w);
        bool was = latched;
        bool r = do_write(&w, ops[i], *pl.b[i]);
        hist += op_text(ops[i]) + (r ? "=1; " : "=0; ");
        size_t c1 = binson_writer_get_counter(&w);
        if (c1 - c0 != call_len[i]) VH_FAIL("C09/w/counter", "call %zu (%s) moved the counter by %zu, reference size %zu (error before: %d); history: %s", i, op_text(ops[i]).c_str(), c1 - c0, call_len[i], (int)was, hist.c_str());
        if (was) {
            after++;
            if (c0 + call_len[i] <= cap) would_fit++;
            if (r) VH_FAIL("C09/w/ret=true-after-error", "call %zu (%s) returned true after error %s; history: %s", i, op_text(ops[i]).c_str(), err_name(first_err), hist.c_str());
            if (w.error_flags == BINSON_ERROR_NONE) VH_FAIL("C09/w/error-cleared", "error vanished without reset/init; history: %s", hist.c_str());
            if (memcmp(snap.data(), dst.p, dst.n) != 0) VH_FAIL("C09/w/stored-after-error", "call %zu (%s) modified the buffer after error %s; history: %s", i, op_text(ops[i]).c_str(), err_name(first_err), hist.c_str());
        } else if (w.error_flags != BINSON_ERROR_NONE) {
            if (r) VH_FAIL("C09/w/ret=true-with-error", "the failing call itself returned true; history: %s", hist.c_str());
            latched = true;
            first_err = w.error_flags;
            snap.assign(dst.p, dst.p + dst.n);
        } else if (!r) {
            VH_FAIL("C09/w/ret=false-without-error", "call %zu returned false but no error is set; history: %s", i, hist.c_str());
        }
        // on a latched writer: a binson_parser_to_writer whose parser is fresh / on a scalar / exhausted / in error / on a
        // container is one more write that must be refused and leave indicator and buffer alone
        if (latched && (s.u8() & 3) == 1) {
            static const uint8_t kDoc[] = {0x42, 0x10, 0x07, 0x40, 0x14, 0x01, 'a', 0x44, 0x41, 0x14, 0x02, 'h', 'i', 0x43};
            static const uint8_t kBad[] = {0x42, 0x10, 0x07, 0x17, 0x43};
            unsigned pos = s.u8() % 6;
            Block pd(pos == 4 ? sizeof kBad : sizeof kDoc);
            memcpy(pd.p, pos == 4 ? kBad : kDoc, pd.n);
            binson_state pst[4];
            binson_parser pp;
            pp.state = pst;
            pp.max_depth = 4;
            binson_parser_init_array(&pp, pd.p, pd.n);
            const char *where = "fresh parser";
            if (pos >= 1) binson_parser_go_into_array(&pp);
            if (pos >= 1) { binson_parser_next(&pp); where = "on an integer"; }
            if (pos == 2 || pos == 3 || pos == 5) { binson_parser_next(&pp); where = "on an object"; }
            if (pos == 3 || pos == 5) { binson_parser_next(&pp); where = "on a string"; }
            if (pos == 5) { binson_parser_next(&pp); where = "past the last element"; }
            if (pos == 4) { binson_parser_next(&pp); where = "parser in error"; }
            bool r = binson_parser_to_writer(&pp, &w);
            hist += fmt("to_writer(%s)=%d; ", where, (int)r);
            st.label("w-latched-to_writer");
            if (r) VH_FAIL("C09/w/to_writer/ret=true-after-error", "binson_parser_to_writer (%s) returned true after error %s; history: %s", where, err_name(first_err), hist.c_str());
            if (w.error_flags == BINSON_ERROR_NONE) VH_FAIL("C09/w/to_writer/error-cleared", "binson_parser_to_writer (%s) cleared the error indicator; history: %s", where, hist.c_str());
            if (memcmp(snap.data(), dst.p, dst.n) != 0) VH_FAIL("C09/w/to_writer/stored-after-error", "binson_parser_to_writer (%s) modified the buffer after error %s; history: %s", where, err_name(first_err), hist.c_str());
        }
    }
    // reset clears (when it returns true), init clears always
    if (latched && mode != 3) {
        bool rr = binson_writer_reset(&w);
        if (rr && (w.error_flags != BINSON_ERROR_NONE || binson_writer_get_counter(&w) != 0)) VH_FAIL("C09/w/reset", "reset returned true but error/counter not cleared");
        if (!rr && w.error_flags == BINSON_ERROR_NONE) VH_FAIL("C09/w/reset-false-cleared", "reset returned false yet the error indicator is clear");
    }
    if (after >= 3 && would_fit >= 1) st.nontrivial(mix(fnv(enc.data(), enc.size(), cap), mode));
    if (latched) st.label(std::string("w-error:") + err_name(first_err));
    if (would_fit) st.label("w-later-write-would-fit");
    if (st.want_sample("writer-latch", 2)) st.sample("writer-latch", fmt("capacity %zu mode %u: %s", cap, mode, hist.substr(0, 400).c_str()));
}

static void int_roundtrip(int64_t v);
static void len_roundtrip(size_t len, bool bytes, Bytes &payload);

// ---------------------------------------------------------------------------
static const char *kName = "writer";

struct Case {
    bool wellformed;
    bool arr;
    unsigned depth;
    Value tree;
    std::vector<WOp> ops;
    uint8_t fill;
};

static Case decode(Src &s) {
    Case c;
    uint8_t h = s.u8();
    bool big = (h & 0x70) == 0x70;
    c.fill = (h & 1) ? 0xA5 : s.u8();
    c.wellformed = is05() || (h & 6) != 0;  // 3/4 well-formed for C04/C09, always for C05
    if (c.wellformed) {
        DocCase d = decode_doc(s, opts(big));
        c.arr = d.array_root;
        c.depth = d.depth;
        c.tree = d.tree;
        unsigned nd = need_depth(c.tree, c.arr);
        if (c.depth < nd) c.depth = nd > 255 ? 255 : nd;
        ref::flatten(c.tree, c.ops);
        // the NUL-terminated API for some of the NUL-free strings and names (same bytes expected)
        if (h & 0x80)
            for (auto &o : c.ops) {
                bool nulfree = true;
                for (uint8_t ch : o.s) if (!ch) { nulfree = false; break; }
                if (nulfree && o.k == ref::W_STR) o.k = ref::W_STR_C;
                else if (nulfree && o.k == ref::W_NAME) o.k = ref::W_NAME_C;
            }
    } else {
        c.arr = false;
        c.depth = 10;
        c.ops = gen_arbitrary_ops(s, big);
    }
    return c;
}

// literal sweep case (written by the enumerator for replay): A8 kind value64
static bool literal_case(Src &s) {
    if (!(s.left() >= 1 && s.p[s.i] == 0xA8)) return false;
    s.u8();
    unsigned kind = s.u8();
    uint64_t v = s.u64();
    Bytes payload;
    if (kind == 0) int_roundtrip((int64_t)v);
    else len_roundtrip((size_t)(v % 70001), kind == 2, payload);
    return true;
}

static void run_case(Src &s) {
    if (literal_case(s)) return;
    Case c = decode(s);
    Stats &st = stats();
    st.label(c.wellformed ? "sequence:well-formed" : "sequence:arbitrary");
    if (is05()) check05(c.tree, c.arr, c.depth, c.ops);
    else if (is09()) check09(c.ops, s);
    else check04(c.ops, s, c.fill);
}

static void describe_case(Src &s, FILE *out) {
    if (s.left() >= 10 && s.p[s.i] == 0xA8) {
        uint64_t v;
        memcpy(&v, s.p + s.i + 2, 8);
        fprintf(out, "  literal sweep case: kind %u value %" PRId64 "\n", s.p[s.i + 1], (int64_t)v);
        return;
    }
    Case c = decode(s);
    fprintf(out, "  %s sequence, %zu calls: %s\n", c.wellformed ? "well-formed" : "arbitrary", c.ops.size(), ops_text(c.ops, 200).c_str());
    Bytes enc = ref::encode_ops(c.ops);
    fprintf(out, "  reference encoding (%zu bytes): %s\n", enc.size(), ref::hex(enc, 300).c_str());
}

// ---------------------------------------------------------------------------
// C05 sweeps: integers around every power of two (thorough: all 32-bit values), all lengths
static void int_roundtrip(int64_t v) {
    // {"a": v} written with the writer, compared with the reference encoder, read back with the parser
    uint8_t buf[32];
    binson_writer w;
    binson_writer_init(&w, buf, sizeof buf);
    binson_write_object_begin(&w);
    binson_write_name_with_len(&w, "a", 1);
    binson_write_integer(&w, v);
    binson_write_object_end(&w);
    Bytes e{0x40, 0x14, 0x01, 'a'};
    ref::put_int(e, 0x10, v);
    e.push_back(0x41);
    if (w.error_flags != BINSON_ERROR_NONE || binson_writer_get_counter(&w) != e.size() || memcmp(buf, e.data(), e.size()) != 0) {
        VH_FAIL("C05/int-sweep/not-canonical", "integer %" PRId64 ": writer bytes %s, canonical %s", v, ref::hex(buf, binson_writer_get_counter(&w) < 32 ? binson_writer_get_counter(&w) : 32).c_str(), ref::hex(e).c_str());
    }
    binson_state stt[2];
    binson_parser p;
    p.state = stt;
    p.max_depth = 2;
    if (!binson_parser_init(&p, buf, e.size()) || !binson_parser_go_into_object(&p) || !binson_parser_next(&p) || binson_parser_get_type(&p) != BINSON_TYPE_INTEGER ||
        binson_parser_get_integer(&p) != v || binson_parser_next(&p) || !binson_parser_leave_object(&p) || p.error_flags != BINSON_ERROR_NONE)
        VH_FAIL("C05/int-sweep/readback", "integer %" PRId64 " does not read back (got %" PRId64 ", error %s)", v, binson_parser_get_integer(&p), err_name(p.error_flags));
}

static void len_roundtrip(size_t len, bool bytes, Bytes &payload) {
    payload.resize(len);
    Block dst(len + 16);
    binson_writer w;
    binson_writer_init(&w, dst.p, dst.n);
    binson_write_array_begin(&w);
    if (bytes) binson_write_bytes(&w, payload.data(), len); else binson_write_string_with_len(&w, (const char *)payload.data(), len);
    binson_write_array_end(&w);
    Bytes e{0x42};
    ref::put_int(e, bytes ? 0x18 : 0x14, (int64_t)len);
    size_t pb = e.size();
    e.insert(e.end(), payload.begin(), payload.end());
    e.push_back(0x43);
    size_t n = binson_writer_get_counter(&w);
    if (w.error_flags != BINSON_ERROR_NONE || n != e.size() || memcmp(dst.p, e.data(), e.size()) != 0)
        VH_FAIL("C05/len-sweep/not-canonical", "%s of length %zu: writer produced %zu bytes starting %s, canonical %zu bytes starting %s", bytes ? "bytes" : "string", len, n, ref::hex(dst.p, n < 8 ? n : 8).c_str(), e.size(), ref::hex(e, 8).c_str());
    binson_state stt[2];
    binson_parser p;
    p.state = stt;
    p.max_depth = 2;
    bool ok = binson_parser_init_array(&p, dst.p, n) && binson_parser_verify(&p) && binson_parser_go_into_array(&p) && binson_parser_next(&p);
    bbuf *b = ok ? (bytes ? binson_parser_get_bytes_bbuf(&p) : binson_parser_get_string_bbuf(&p)) : nullptr;
    if (!ok || !b || b->bsize != len || (len && b->bptr != dst.p + pb) || binson_parser_next(&p) || !binson_parser_leave_array(&p) || p.error_flags != BINSON_ERROR_NONE)
        VH_FAIL("C05/len-sweep/readback", "%s of length %zu does not read back", bytes ? "bytes" : "string", len);
}

static void save_literal(unsigned kind, uint64_t v) {
    uint8_t cs[10] = {0xA8, (uint8_t)kind};
    memcpy(cs + 2, &v, 8);
    vh_save_fail_case(cs, 10);
}

#define VH_HAS_ENUM
static int enumerate(int shard, int nshards, const char *tier) {
    if (!is05()) return 0;
    Stats &st = stats();
    bool thorough = tier && !strcmp(tier, "thorough");
    if (getenv("VH_ENUM_FULL32")) thorough = !strcmp(getenv("VH_ENUM_FULL32"), "1");
    uint64_t n = 0, idx = 0;
    // every value within 2^16 of +-2^k
    for (int k = 0; k < 64; k++)
        for (int sign = 0; sign < 2; sign++) {
            uint64_t base = 1ULL << k;
            if (sign) base = (uint64_t)0 - base;
            if (((idx++) % (uint64_t)nshards) != (uint64_t)shard) continue;
            for (int64_t off = -65536; off <= 65536; off++) {
                int64_t v = (int64_t)(base + (uint64_t)off);
                try { int_roundtrip(v); } catch (const Failure &) { save_literal(0, (uint64_t)v); throw; }
                if ((off & 63) == 0) st.nontrivial(mix(0x1234, (uint64_t)v));
                n++;
            }
        }
    st.counters["enum_boundary_integers"] += n;
    uint64_t m = 0;
    if (thorough) {
        // all 32-bit values, sliced
        uint64_t per = (1ULL << 32) / (uint64_t)nshards;
        uint64_t lo = per * (uint64_t)shard, hi = (shard == nshards - 1) ? (1ULL << 32) : lo + per;
        for (uint64_t u = lo; u < hi; u++) {
            int64_t v = (int64_t)(int32_t)(uint32_t)u;
            try { int_roundtrip(v); } catch (const Failure &) { save_literal(0, (uint64_t)v); throw; }
            m++;
        }
        st.counters["enum_all_int32"] += m;
    }
    // lengths
    uint64_t l = 0;
    Bytes payload;
    payload.reserve(70001);
    auto do_len = [&](size_t len) {
        if ((len % (size_t)nshards) != (size_t)shard) return;
        for (int b = 0; b < 2; b++) {
            try { len_roundtrip(len, b, payload); } catch (const Failure &) { save_literal(1 + (unsigned)b, len); throw; }
            st.nontrivial(mix(0x4321 + (uint64_t)b, len));
            l++;
        }
    };
    if (thorough) for (size_t len = 0; len <= 70000; len++) do_len(len);
    else {
        for (size_t len = 0; len <= 300; len++) do_len(len);
        for (size_t len = 32700; len <= 32800; len++) do_len(len);
        for (size_t len = 65500; len <= 65600; len++) do_len(len);
        do_len(70000);
    }
    st.counters["enum_lengths"] += l;
    st.evaluations += n + m + l;
    return 0;
}

#include "glue.hpp"
