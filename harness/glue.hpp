// Included at the END of every harness TU.  The TU defines
//   static const char *kName;
//   static void run_case(vh::Src &s);                 // throws vh::Failure on an oracle failure
//   static void describe_case(vh::Src &s, FILE *out);
// and optionally (announce with the macro before including this file)
//   VH_HAS_ENUM : static int enumerate(int shard, int nshards, const char *tier);
//   VH_HAS_WRAP : static size_t wrap_raw(const uint8_t*, size_t, unsigned, uint8_t*, size_t);
#pragma once
#include "common.hpp"

static std::string g_sig, g_detail;
static std::string vh_clean_sig(const std::string &s) {
    std::string o;
    for (char c : s) o.push_back((c == ' ' || c == ':' || c == '\n' || c == '\t') ? '-' : c);
    return o;
}

extern "C" const char *vh_name(void) { return kName; }
extern "C" const char *vh_last_sig(void) { return g_sig.c_str(); }
extern "C" const char *vh_last_detail(void) { return g_detail.c_str(); }
extern "C" void vh_dump_stats(const char *path) { vh::dump_stats(path); }
extern "C" void vh_set_quiet(int q) { vh::stats().quiet = q != 0; }

extern "C" int vh_run(const uint8_t *data, size_t size) {
    try {
        vh::Src s(data, size);
        if (!vh::stats().quiet) vh::stats().evaluations++;
        run_case(s);
        return 0;
    } catch (const vh::Failure &f) {
        g_sig = vh_clean_sig(f.sig);
        g_detail = f.detail;
        return 1;
    }
}

extern "C" void vh_describe(const uint8_t *data, size_t size, FILE *out) {
    vh::Src s(data, size);
    bool q = vh::stats().quiet;
    vh::stats().quiet = true;
    try {
        describe_case(s, out);
    } catch (const vh::Failure &f) {
        fprintf(out, "  (describe hit failure %s)\n", f.sig.c_str());
    }
    vh::stats().quiet = q;
}

extern "C" int vh_enumerate(int shard, int nshards, const char *tier) {
#ifdef VH_HAS_ENUM
    try {
        return enumerate(shard, nshards, tier);
    } catch (const vh::Failure &f) {
        g_sig = vh_clean_sig(f.sig);
        g_detail = f.detail;
        return 1;
    }
#else
    (void)shard; (void)nshards; (void)tier;
    return -1;
#endif
}

extern "C" size_t vh_wrap_raw(const uint8_t *doc, size_t n, unsigned variant, uint8_t *out, size_t cap) {
#ifdef VH_HAS_WRAP
    return wrap_raw(doc, n, variant, out, cap);
#else
    (void)doc; (void)n; (void)variant; (void)out; (void)cap;
    return 0;
#endif
}


extern "C" uint64_t vh_digest(const uint8_t *data, size_t n, int *nontrivial) {
#ifdef VH_HAS_DIGEST
    return digest_case(data, n, nontrivial);
#else
    (void)data; (void)n; *nontrivial = 0;
    return 0;
#endif
}
