// C06 / C07 / C11: protocol-following navigation, field lookups and raw
// extraction on valid documents, compared call by call with the reference
// cursor over the decoded tree.  Random/fuzzed op scripts plus explicit-state
// exploration of every history on every small tree.
#include <deque>
#include <unordered_map>

#include "doccase.hpp"
#include "shapes.hpp"

using namespace vh;
using ref::Cursor;
using ref::K_ARR;
using ref::K_OBJ;

static const char *prop() {
    static const char *p = getenv("VH_PROP") ? getenv("VH_PROP") : "C06";
    return p;
}

enum OpK { O_NEXT = 0, O_ENTER, O_LEAVE, O_RAW, O_TOWRITER, O_FIELD, O_FIELD_C, O_FIELD_ENS, O_FIELD_ENS_C, O_NEXT_ENS, O_RAW_SCALAR, O_N, O_DIVE = 0x40 };
static const char *kOpName[] = {"next", "enter", "leave", "get_raw", "to_writer", "field_with_length", "field", "field_ensure_with_length", "field_ensure", "next_ensure", "raw_on_scalar"};

static const binson_type kTypes[] = {BINSON_TYPE_OBJECT, BINSON_TYPE_ARRAY, BINSON_TYPE_BOOLEAN, BINSON_TYPE_INTEGER, BINSON_TYPE_DOUBLE, BINSON_TYPE_STRING, BINSON_TYPE_BYTES};

// lookup-name candidates for an object: present names, then absent ones around them
static std::vector<Bytes> candidates(const Value &obj) {
    std::vector<Bytes> c;
    for (auto &f : obj.c) c.push_back(f.name);
    auto add = [&](const Bytes &b) {
        for (auto &x : c) if (x == b) return;
        c.push_back(b);
    };
    add(Bytes{});
    for (auto &f : obj.c) {
        Bytes e = f.name; e.push_back(0x00); add(e);                 // extension: sorts right after
        if (!f.name.empty()) {
            Bytes p(f.name.begin(), f.name.end() - 1); add(p);       // strict prefix
            Bytes q = f.name; q.back() = (uint8_t)(q.back() + 1); add(q);
            Bytes r = f.name; r.back() = (uint8_t)(r.back() - 1); add(r);
        }
        Bytes e2 = f.name; e2.push_back('a'); add(e2);
    }
    add(Bytes{0xff, 0xff, 0xff});
    add(Bytes{'b'});
    return c;
}

static bool nul_free(const Bytes &b) {
    for (uint8_t x : b) if (!x) return false;
    return true;
}

struct Session {
    PBox pb;
    const Value *root;
    Cursor cur;
    bool array_root;
    Block wbuf;
    binson_writer w;
    std::vector<std::string> log;
    bool keep_log;
    std::map<const Value *, std::vector<Bytes>> cand_cache;
    bool literal = true;  // literal selectors (enumerator / explicit scripts) vs weighted ones
    // classification
    bool skip_container = false, leave_unread = false, leave_pending = false, next_after_inner_leave = false;
    bool just_left_inner = false;
    unsigned hits = 0, misses = 0, miss_then_hit = 0, lookup_over_pending = 0, special_names = 0, aliased = 0;
    bool last_lookup_missed = false;
    unsigned raws = 0, raw_deep = 0, raw_after_history = 0;
    bool history = false;  // a leave/raw/lookup happened before
    uint64_t ophash = 0;
    unsigned steps = 0;

    Session(const Bytes &doc, const Value *tree, bool arr, unsigned depth, bool keeplog)
        : root(tree), cur(tree), array_root(arr), keep_log(keeplog) {
        pb.make(depth, nullptr, 0, 0);
        pb.set_input(doc);
        wbuf.alloc(doc.size() + 8);
        wbuf.fill(0xEE);
        binson_writer_init(&w, wbuf.p, wbuf.n);
    }

    std::string ctx() const {
        std::string o;
        size_t from = log.size() > 24 ? log.size() - 24 : 0;
        for (size_t i = from; i < log.size(); i++) { o += log[i]; o += "; "; }
        return fmt("root=%s doc=%s ops[%zu]: %s", array_root ? "array" : "object", ref::hex(pb.input.p, pb.input.n, 160).c_str(), log.size(), o.c_str());
    }
    void note(const std::string &s) { if (keep_log) log.push_back(s); }

    [[noreturn]] void fail(const std::string &op, const std::string &what, const std::string &detail) {
        const Value *pend = cur.pending();
        std::string sig = std::string(prop()) + "/" + op + "/" + what;
        if (pend && cur.in_root()) sig += std::string("/pending=") + ref::kind_name(pend->k);
        throw Failure{sig, detail + " | " + ctx()};
    }
    void no_error(const char *op) {
        if (pb.p->error_flags != BINSON_ERROR_NONE) fail(op, std::string("error=") + err_name(pb.p->error_flags), "error raised on a valid document by a protocol-following call");
    }

    void check_current(const char *op) {
        const Value *v = cur.cur;
        binson_parser *p = pb.p;
        binson_type t = binson_parser_get_type(p);
        if (t != to_btype(v->k)) fail(op, "type", fmt("get_type=%d expected %s", (int)t, ref::kind_name(v->k)));
        if (cur.innermost()->k == K_OBJ) {
            bbuf *n = binson_parser_get_name(p);
            if (!n) fail(op, "name=NULL", "get_name returned NULL inside an object after a successful call");
            if ((n->bsize && n->bptr != pb.input.p + v->npb) || n->bsize != v->name.size())  // an empty span names no byte: only its size is compared
                fail(op, "name-span", fmt("name span off=%td len=%zu expected off=%zu len=%zu", n->bptr - pb.input.p, n->bsize, v->npb, v->name.size()));
        }
        int64_t gi = binson_parser_get_integer(p);
        bool gb = binson_parser_get_boolean(p);
        double gd = binson_parser_get_double(p);
        uint64_t gdb;
        memcpy(&gdb, &gd, 8);
        bbuf *gs = binson_parser_get_string_bbuf(p);
        bbuf *gy = binson_parser_get_bytes_bbuf(p);
        switch (v->k) {
        case ref::K_INT: if (gi != v->i) fail(op, "int-value", fmt("get_integer=%" PRId64 " expected %" PRId64, gi, v->i)); break;
        case ref::K_BOOL: if (gb != v->b) fail(op, "bool-value", "get_boolean mismatch"); break;
        case ref::K_DBL: if (gdb != v->d) fail(op, "double-bits", fmt("get_double bits %016" PRIx64 " expected %016" PRIx64, gdb, v->d)); break;
        case ref::K_STR:
            if (!gs || (gs->bsize && gs->bptr != pb.input.p + v->pb) || gs->bsize != v->s.size()) fail(op, "string-span", "string span mismatch");
            break;
        case ref::K_BYT:
            if (!gy || (gy->bsize && gy->bptr != pb.input.p + v->pb) || gy->bsize != v->s.size()) fail(op, "bytes-span", "bytes span mismatch");
            break;
        default: break;
        }
        if (v->k != ref::K_INT && gi != 0) fail(op, "neutral-int", "get_integer not 0 on a non-integer");
        if (v->k != ref::K_BOOL && gb) fail(op, "neutral-bool", "get_boolean not false on a non-boolean");
        if (v->k != ref::K_DBL && gdb != 0) fail(op, "neutral-double", "get_double not +0.0 on a non-double");
        if (v->k != ref::K_STR && gs) fail(op, "neutral-string", "get_string_bbuf not NULL on a non-string");
        if (v->k != ref::K_BYT && gy) fail(op, "neutral-bytes", "get_bytes_bbuf not NULL on a non-bytes");
        no_error(op);
    }

    // applies one op; `kind` is remapped to a protocol-legal op; extra selector bytes come from s.
    // returns false when the case is over.
    bool step(unsigned kind, Src &s) {
        binson_parser *p = pb.p;
        if (cur.done) return false;
        const Value *pend = cur.pending();
        if (!cur.in_root()) kind = O_ENTER;
        else {
            bool in_obj = cur.innermost()->k == K_OBJ;
            switch (kind) {
            case O_ENTER: case O_RAW: case O_TOWRITER: if (!pend) kind = O_NEXT; break;
            case O_FIELD: case O_FIELD_C: case O_FIELD_ENS: case O_FIELD_ENS_C: if (!in_obj) kind = O_NEXT; break;
            case O_RAW_SCALAR: if (!(cur.cur && !cur.cur->is_container())) kind = O_NEXT; break;
            default: break;
            }
        }
        steps++;
        ophash = mix(ophash, kind + 1);
        size_t d0 = binson_parser_get_depth(p);
        switch (kind) {
        case O_ENTER: {
            bool obj = pend->k == K_OBJ;
            const char *op = obj ? "go_into_object" : "go_into_array";
            note(op);
            if (cur.in_root()) {
                binson_type t = binson_parser_get_type(p);
                if (t != to_btype(pend->k)) fail(op, "type-before-enter", fmt("get_type=%d for a pending %s", (int)t, ref::kind_name(pend->k)));
            }
            bool r = obj ? binson_parser_go_into_object(p) : binson_parser_go_into_array(p);
            if (!r) fail(op, "ret=false", "entering a pending container failed");
            no_error(op);
            size_t d1 = binson_parser_get_depth(p);
            if (d1 != d0 + (obj ? 1 : 0)) fail(op, "depth", fmt("depth %zu -> %zu", d0, d1));
            cur.enter();
            just_left_inner = false;
            return true;
        }
        case O_LEAVE: {
            const Value *in = cur.innermost();
            bool obj = in->k == K_OBJ;
            const char *op = obj ? "leave_object" : "leave_array";
            note(op);
            const Cursor::Frame &f = cur.st.back();
            if (f.idx < in->c.size()) leave_unread = true;
            if (f.pending) leave_pending = true;
            bool r = obj ? binson_parser_leave_object(p) : binson_parser_leave_array(p);
            if (!r) fail(op, "ret=false", "leaving the innermost container failed");
            no_error(op);
            size_t d1 = binson_parser_get_depth(p);
            if (d1 + (obj ? 1 : 0) != d0) fail(op, "depth", fmt("depth %zu -> %zu", d0, d1));
            cur.leave();
            history = true;
            just_left_inner = !cur.done;
            return !cur.done;
        }
        case O_NEXT: {
            note("next");
            if (pend) skip_container = true;
            if (just_left_inner) next_after_inner_leave = true;
            bool e = cur.next();
            bool r = binson_parser_next(p);
            if (r != e) fail("next", fmt("ret=%d", (int)r), fmt("next returned %d, reference %d", (int)r, (int)e));
            no_error("next");
            if (binson_parser_get_depth(p) != d0) fail("next", "depth", "depth changed by next");
            if (r) check_current("next");
            just_left_inner = false;
            return true;
        }
        case O_NEXT_ENS: {
            Cursor peek = cur;
            bool e = peek.next();
            unsigned sel = s.u8();
            binson_type want;
            bool match = true;
            if (e) {
                want = to_btype(peek.cur->k);
                if (sel % 4 == 0) {
                    binson_type other = kTypes[(sel / 4) % 7];
                    if (other != want) { want = other; match = false; }
                }
            } else want = kTypes[sel % 7];
            if (keep_log) note(fmt("next_ensure(%d)", (int)want));
            ophash = mix(ophash, (uint64_t)want);
            if (pend) skip_container = true;
            bool r = binson_parser_next_ensure(p, want);
            cur.next();
            if (e && !match) {
                if (r) fail("next_ensure", "ret=true/wrong-type", "next_ensure succeeded although the type differs");
                if (pb.p->error_flags != BINSON_ERROR_WRONG_TYPE) fail("next_ensure", "code", fmt("error=%s expected WRONG_TYPE", err_name(pb.p->error_flags)));
                return false;
            }
            if (r != e) fail("next_ensure", fmt("ret=%d", (int)r), fmt("next_ensure returned %d, reference %d", (int)r, (int)e));
            no_error("next_ensure");
            if (r) check_current("next_ensure");
            just_left_inner = false;
            return true;
        }
        case O_RAW:
        case O_TOWRITER: {
            const char *op = kind == O_RAW ? "get_raw" : "to_writer";
            note(op);
            raws++;
            if (cur.st.size() >= 2) raw_deep++;
            if (history) raw_after_history++;
            binson_type t = binson_parser_get_type(p);
            if (t != to_btype(pend->k)) fail(op, "type-before", fmt("get_type=%d for a pending %s", (int)t, ref::kind_name(pend->k)));
            size_t len = pend->te - pend->tb;
            if (kind == O_RAW) {
                bbuf raw;
                raw.bptr = nullptr;
                raw.bsize = 0;
                bool r = binson_parser_get_raw(p, &raw);
                if (!r) fail(op, "ret=false", "get_raw failed on a pending container");
                if (raw.bptr != pb.input.p + pend->tb || raw.bsize != len)
                    fail(op, "span", fmt("raw span off=%td len=%zu expected off=%zu len=%zu", raw.bptr - pb.input.p, raw.bsize, pend->tb, len));
                // the span is a standalone valid document of that kind
                ref::Rec rr = ref::recognise(raw.bptr, raw.bsize, pend->k == K_ARR, 255, false);
                PBox q;
                q.make(255, nullptr, 0, 0);
                q.set_input(raw.bptr, raw.bsize);
                bool qok = q.init(pend->k == K_ARR) && binson_parser_verify(q.p);
                // depth 255 is always sufficient for a sub-document of a document that this parser accepted
                if (!rr.ok || !qok) fail(op, "span-not-standalone", "raw span is not a valid standalone document");
            } else {
                size_t c0 = binson_writer_get_counter(&w);
                if (c0 + len > wbuf.n) { binson_writer_init(&w, wbuf.p, wbuf.n); c0 = 0; }
                bool r = binson_parser_to_writer(p, &w);
                if (!r) fail(op, "ret=false", "to_writer failed on a pending container");
                if (binson_writer_get_counter(&w) != c0 + len) fail(op, "counter", fmt("writer counter %zu expected %zu", binson_writer_get_counter(&w), c0 + len));
                if (memcmp(wbuf.p + c0, pb.input.p + pend->tb, len) != 0) fail(op, "bytes", "bytes appended to the writer differ from the container's bytes");
                if (w.error_flags != BINSON_ERROR_NONE) fail(op, "writer-error", "writer error after to_writer");
            }
            no_error(op);
            if (binson_parser_get_depth(p) != d0) fail(op, "depth", "depth changed");
            cur.raw();
            history = true;
            just_left_inner = !cur.done;
            return !cur.done;
        }
        case O_RAW_SCALAR: {
            note("raw_on_scalar");
            binson_type t0 = binson_parser_get_type(p);
            size_t c0 = binson_writer_get_counter(&w);
            bbuf raw;
            raw.bptr = nullptr;
            raw.bsize = 0;
            if (binson_parser_get_raw(p, &raw)) fail("get_raw", "ret=true/scalar", "get_raw succeeded on a scalar");
            if (binson_parser_to_writer(p, &w)) fail("to_writer", "ret=true/scalar", "to_writer succeeded on a scalar");
            if (binson_writer_get_counter(&w) != c0 || w.error_flags != BINSON_ERROR_NONE) fail("to_writer", "writer-changed/scalar", "writer changed by a refused to_writer");
            no_error("raw_on_scalar");
            if (binson_parser_get_type(p) != t0) fail("get_raw", "type-changed/scalar", "current type changed by a refused get_raw");
            check_current("raw_on_scalar");
            return true;
        }
        default: {  // lookups
            const Value *in = cur.innermost();
            auto cit = cand_cache.find(in);
            if (cit == cand_cache.end()) cit = cand_cache.emplace(in, candidates(*in)).first;
            const std::vector<Bytes> &cand = cit->second;
            unsigned sel = s.u8();
            Bytes name;
            if (sel == 0xff) { unsigned l = s.u8() % 6; for (unsigned i = 0; i < l; i++) name.push_back(s.u8()); }
            else if (literal || in->c.empty()) name = cand[sel % cand.size()];
            else if (sel & 0x80) {                                                               // a present name, mostly one still ahead
                size_t idx = cur.st.back().idx, nfl = in->c.size();
                if ((sel & 0x40) || idx >= nfl) name = cand[(sel & 0x3f) % nfl];
                else name = cand[idx + (sel & 0x3f) % (nfl - idx)];
            }
            else name = cand[in->c.size() + (sel % (cand.size() - in->c.size()))];               // an absent one
            bool cform = (kind == O_FIELD_C || kind == O_FIELD_ENS_C) && nul_free(name);
            bool ens = (kind == O_FIELD_ENS || kind == O_FIELD_ENS_C);
            Cursor peek = cur;
            bool e = peek.field(name);
            binson_type want = BINSON_TYPE_NONE;
            bool match = true;
            if (ens) {
                unsigned ts = s.u8();
                if (e) {
                    want = to_btype(peek.cur->k);
                    if (ts % 4 == 0) {
                        binson_type other = kTypes[(ts / 4) % 7];
                        if (other != want) { want = other; match = false; }
                    }
                } else want = kTypes[ts % 7];
            }
            const char *op = kOpName[cform ? (ens ? O_FIELD_ENS_C : O_FIELD_C) : (ens ? O_FIELD_ENS : O_FIELD)];
            if (keep_log) note(fmt("%s(<%s>%s)", op, ref::hex(name, 12).c_str(), ens ? fmt(",%d", (int)want).c_str() : ""));
            ophash = mix(ophash, fnv(name.data(), name.size()) ^ (uint64_t)want);
            if (pend) lookup_over_pending++;
            for (uint8_t ch : name) if (ch == 0 || ch >= 0x80) { special_names++; break; }
            // the name is handed over in an exactly-sized block (C form: with its terminator)
            Block nb(name.size() + (cform ? 1 : 0));
            if (!name.empty()) memcpy(nb.p, name.data(), name.size());
            if (cform) nb.p[name.size()] = 0;
            const char *np = (const char *)nb.p;
            if (!cform && !literal && (sel & 0x20)) {
                // in-place lookup: the name pointer aliases a field name inside the document (as an application does that got it
                // from get_name and looks up a prefix of it, or the name itself) - same bytes, so the same answer is due
                for (auto &f : in->c)
                    if (f.name.size() >= name.size() && !name.empty() && memcmp(f.name.data(), name.data(), name.size()) == 0) { np = (const char *)pb.input.p + f.npb; aliased++; break; }
            }
            bool r;
            if (!ens) r = cform ? binson_parser_field(p, np) : binson_parser_field_with_length(p, np, name.size());
            else r = cform ? binson_parser_field_ensure(p, np, want) : binson_parser_field_ensure_with_length(p, np, name.size(), want);
            cur.field(name);
            history = true;
            just_left_inner = false;
            if (ens && e && !match) {
                if (r) fail(op, "ret=true/wrong-type", "field_ensure succeeded although the type differs");
                if (pb.p->error_flags != BINSON_ERROR_WRONG_TYPE) fail(op, "code", fmt("error=%s expected WRONG_TYPE", err_name(pb.p->error_flags)));
                return false;
            }
            if (r != e) fail(op, fmt("ret=%d", (int)r), fmt("lookup returned %d, reference %d", (int)r, (int)e));
            no_error(op);
            if (binson_parser_get_depth(p) != d0) fail(op, "depth", "depth changed by a lookup");
            if (r) {
                hits++;
                if (last_lookup_missed) miss_then_hit++;
                last_lookup_missed = false;
                check_current(op);
            } else {
                misses++;
                last_lookup_missed = true;
            }
            return true;
        }
        }
    }

    void finish() {
        if (!pb.input_intact()) fail("any", "input-modified", "the input buffer was modified");
    }
};

// op selection weights per property; state-aware so that the interesting shapes are frequent
static unsigned pick_op(uint8_t b, const Cursor &cur) {
    const char *p = prop();
    bool pend = cur.in_root() && cur.pending();
    bool in_obj = cur.in_root() && cur.innermost()->k == K_OBJ;
    bool on_scalar = cur.cur && !cur.cur->is_container();
    unsigned m = b % 16;
    if (!strcmp(p, "C07")) {
        if (pend) { static const uint8_t t[] = {O_ENTER, O_ENTER, O_ENTER, O_ENTER, O_NEXT, O_NEXT, O_LEAVE, O_RAW, O_FIELD, O_FIELD, O_FIELD, O_FIELD_C, O_FIELD_ENS, O_ENTER, O_ENTER, O_FIELD}; return t[m]; }
        if (in_obj) { static const uint8_t t[] = {O_NEXT, O_NEXT, O_LEAVE, O_FIELD, O_FIELD, O_FIELD, O_FIELD, O_FIELD, O_FIELD_C, O_FIELD_C, O_FIELD_C, O_FIELD_ENS, O_FIELD_ENS_C, O_NEXT_ENS, O_RAW_SCALAR, O_FIELD}; return t[m]; }
        static const uint8_t t[] = {O_NEXT, O_NEXT, O_NEXT, O_NEXT, O_NEXT, O_NEXT, O_NEXT, O_NEXT, O_NEXT, O_NEXT, O_NEXT, O_NEXT_ENS, O_LEAVE, O_LEAVE, O_NEXT, O_RAW_SCALAR};
        return t[m];
    }
    if (!strcmp(p, "C11")) {
        if (pend) { static const uint8_t t[] = {O_RAW, O_RAW, O_RAW, O_RAW, O_TOWRITER, O_TOWRITER, O_TOWRITER, O_ENTER, O_ENTER, O_ENTER, O_ENTER, O_ENTER, O_NEXT, O_LEAVE, O_FIELD, O_ENTER}; return t[m]; }
        if (on_scalar && m < 4) return O_RAW_SCALAR;
        static const uint8_t t[] = {O_NEXT, O_NEXT, O_NEXT, O_NEXT, O_NEXT, O_NEXT, O_NEXT, O_NEXT, O_NEXT, O_NEXT, O_NEXT, O_NEXT_ENS, O_LEAVE, O_LEAVE, O_FIELD, O_FIELD_C};
        return t[m];
    }
    if (pend) { static const uint8_t t[] = {O_ENTER, O_ENTER, O_ENTER, O_ENTER, O_ENTER, O_ENTER, O_NEXT, O_NEXT, O_NEXT, O_LEAVE, O_LEAVE, O_LEAVE, O_RAW, O_TOWRITER, O_FIELD, O_NEXT_ENS}; return t[m]; }
    static const uint8_t t[] = {O_NEXT, O_NEXT, O_NEXT, O_NEXT, O_NEXT, O_NEXT, O_NEXT, O_NEXT, O_NEXT, O_NEXT_ENS, O_LEAVE, O_LEAVE, O_LEAVE, O_FIELD, O_FIELD_C, O_RAW_SCALAR};
    return t[m];
}

static DocOpts opts() {
    DocOpts o;
    o.allow_invalid = false;
    o.depth_sufficient = true;
    o.cfg.max_nodes = 40;
    o.cfg.max_depth = 7;
    o.cfg.max_fan = 6;
    o.cfg.wide_max = 300;
    if (!strcmp(prop(), "C07")) o.cfg.objects_favoured = true;
    return o;
}

static const char *kName = "nav";

// explicit script mode: byte0 == 0xA7 -> [root][depth][len16][doc][ops...] where every op byte is taken literally
static bool decode_case(Src &s, DocCase &c, bool &literal) {
    literal = false;
    if (s.left() >= 1 && s.p[s.i] == 0xA7) {
        s.u8();
        literal = true;
        c.array_root = s.u8() & 1;
        c.depth = s.u8();
        if (!c.depth) c.depth = 1;
        c.doc = s.take(s.u16());
        c.mode = DM_RAW;
        return true;
    }
    c = decode_doc(s, opts());
    return true;
}

// "dive": follow the first container at every level down to the bottom (next, enter, next, enter, ...), every sub-step
// checked like any other; reaches the deep end of long chains, which independent random choices never do
static bool dive(Session &ss, Src &s) {
    for (unsigned k = 0; k < 6000; k++) {
        if (ss.cur.done) return false;
        if (!ss.cur.in_root() || ss.cur.pending()) { if (!ss.step(O_ENTER, s)) return false; continue; }
        Cursor peek = ss.cur;
        bool more = peek.next();
        if (!ss.step(O_NEXT, s)) return false;
        if (!more || !ss.cur.pending()) return true;   // bottom reached: the cursor is on a scalar or at the end of the innermost container
    }
    return true;
}

static void run_script(Session &ss, Src &s, bool literal, unsigned max_steps) {
    if (!literal && (ss.pb.input.n & 1)) {
        // the README's usage: verify first, then traverse (a successful verify leaves the cursor at the start)
        if (!binson_parser_verify(ss.pb.p)) ss.fail("verify", "ret=false", "verify rejected a valid document before the traversal");
        ss.note("verify");
    }
    for (unsigned i = 0; i < max_steps; i++) {
        if (s.dry() && ss.cur.in_root() && i > 0) {
            // source exhausted: finish the traversal by leaving everything
            while (!ss.cur.done) ss.step(O_LEAVE, s);
            break;
        }
        uint8_t b = s.u8();
        if (!literal && (b & 0x3f) == 0x3f) { if (!dive(ss, s)) break; continue; }
        unsigned kind = literal ? (b % O_N) : pick_op(b, ss.cur);
        ss.literal = literal;
        if (!ss.step(kind, s)) break;
    }
    ss.finish();
}

static void name_sweep_case(size_t L, unsigned variant);

static void run_case(Src &s) {
    if (s.left() >= 6 && s.p[s.i] == 0xA6) {  // literal name-sweep case written by the enumerator
        uint32_t l32;
        memcpy(&l32, s.p + s.i + 2, 4);
        name_sweep_case(l32 % 70001, s.p[s.i + 1]);
        return;
    }
    DocCase c;
    bool literal;
    size_t start = s.i;
    decode_case(s, c, literal);
    size_t ops_at = s.i;
    (void)start;
    ref::Rec rec = ref::recognise(c.doc.data(), c.doc.size(), c.array_root, c.depth, true);
    Stats &st = stats();
    if (!rec.ok) { st.label("skipped:not-a-valid-document"); return; }
    Session ss(c.doc, &rec.root, c.array_root, c.depth, false);
    try {
        if (!ss.pb.init(c.array_root)) VH_FAIL(std::string(prop()) + "/init/ret=false", "init rejected a valid document: %s", ss.ctx().c_str());
        run_script(ss, s, literal, 400);
    } catch (const Failure &) {
        // run again with the op log switched on so that the report shows the history
        Session s2(c.doc, &rec.root, c.array_root, c.depth, true);
        Src r(s.p, s.n);
        r.i = ops_at;
        if (!s2.pb.init(c.array_root)) VH_FAIL(std::string(prop()) + "/init/ret=false", "init rejected a valid document: %s", s2.ctx().c_str());
        run_script(s2, r, literal, 400);
        throw;  // (not reached if the re-run fails the same way, which it must)
    }
    // classification
    const char *p = prop();
    bool nt;
    if (!strcmp(p, "C07")) nt = ss.miss_then_hit > 0 || ss.lookup_over_pending > 0 || (ss.special_names > 0 && ss.hits + ss.misses >= 2);
    else if (!strcmp(p, "C11")) nt = ss.raw_deep > 0 || ss.raw_after_history > 0;
    else nt = ss.skip_container || ss.leave_unread || ss.leave_pending;
    if (nt) st.nontrivial(mix(fnv(c.doc.data(), c.doc.size()), ss.ophash));
    if (ss.skip_container) st.label("skip-container");
    if (ss.leave_unread) st.label("leave-with-unread");
    if (ss.leave_pending) st.label("leave-with-pending-container");
    if (ss.next_after_inner_leave) st.label("next-after-inner-leave");
    if (ss.miss_then_hit) st.label("lookup-miss-then-hit");
    if (ss.lookup_over_pending) st.label("lookup-over-pending-container");
    if (ss.special_names) st.label("lookup-name-with-0x00-or-0x80+");
    if (ss.aliased) st.label("lookup-name-aliasing-the-document");
    if (ss.raws) st.label("raw-extraction");
    if (ss.raw_deep) st.label("raw-nested>=2");
    if (ss.raw_after_history) st.label("raw-after-leave/raw/lookup");
    st.label(c.array_root ? "root:array" : "root:object");
    st.count("steps", ss.steps);
    const char *cl = nt ? "non-trivial" : "trivial";
    if (st.want_sample(cl, 3) && ss.steps >= 4) {
        Session s2(c.doc, &rec.root, c.array_root, c.depth, true);
        Src r(s.p, s.n);
        r.i = ops_at;
        s2.pb.init(c.array_root);
        run_script(s2, r, literal, 400);
        std::string o;
        for (auto &l : s2.log) { o += l; o += "; "; }
        st.sample(cl, fmt("root=%s doc=%s ops: %s", c.array_root ? "array" : "object", ref::hex(c.doc, 64).c_str(), o.substr(0, 600).c_str()));
    }
}

static void describe_case(Src &s, FILE *out) {
    if (s.left() >= 6 && s.p[s.i] == 0xA6) {
        uint32_t l32;
        memcpy(&l32, s.p + s.i + 2, 4);
        fprintf(out, "  name-sweep case: name length %u, variant %u\n", l32, s.p[s.i + 1] % 3);
        return;
    }
    DocCase c;
    bool literal;
    decode_case(s, c, literal);
    fprintf(out, "%s\n", describe_doc(c).c_str());
    ref::Rec rec = ref::recognise(c.doc.data(), c.doc.size(), c.array_root, c.depth, true);
    if (!rec.ok) { fprintf(out, "  (not a valid document: case skipped)\n"); return; }
    fprintf(out, "  tree: %s\n", ref::sketch(rec.root, 200).c_str());
    Session ss(c.doc, &rec.root, c.array_root, c.depth, true);
    if (!ss.pb.init(c.array_root)) { fprintf(out, "  init rejected\n"); return; }
    try {
        run_script(ss, s, literal, 400);
    } catch (const Failure &f) {
        fprintf(out, "  ops: ");
        for (auto &l : ss.log) fprintf(out, "%s; ", l.c_str());
        fprintf(out, "\n  FAILS at op %zu: %s\n", ss.log.size(), f.sig.c_str());
        return;
    }
    fprintf(out, "  ops: ");
    for (auto &l : ss.log) fprintf(out, "%s; ", l.c_str());
    fprintf(out, "\n");
}

#define VH_HAS_WRAP
static size_t wrap_raw(const uint8_t *doc, size_t n, unsigned variant, uint8_t *out, size_t cap) { (void)variant; return wrap_raw_doc(doc, n, 8u, out, cap); }

// ---------------------------------------------------------------------------
// Explicit-state exploration: all trees with <= N nodes, every protocol-legal
// history (BFS over joint states: parser bytes x reference cursor).

struct Joint {
    Bytes pbytes, sbytes;  // parser struct and state array snapshot
    Cursor cur;
    bool flags[3];         // just_left_inner, history, last_lookup_missed (harness-side, do not affect the library)
    int parent;
    Bytes opbytes;         // literal op bytes leading here from parent
};

static uint64_t joint_key(const Joint &j) {
    uint64_t h = fnv(j.pbytes.data(), j.pbytes.size());
    h = fnv(j.sbytes.data(), j.sbytes.size(), h);
    for (auto &f : j.cur.st) { h = mix(h, (uint64_t)(uintptr_t)f.v); h = mix(h, f.idx * 2 + f.pending); }
    h = mix(h, j.cur.done);
    h = mix(h, (uint64_t)(uintptr_t)j.cur.cur);
    return h;
}


// ---------------------------------------------------------------------------
// Deterministic sweep over field-name lengths (0..300, around 2^15 and 2^16, 70000): lookups that miss just before,
// hit, and miss just after a name of every swept length, with an un-entered container as its value, then next / get_raw /
// leave; every call compared with the reference cursor.  A failing (length, variant) is saved as a literal case A6.
static void name_sweep_case(size_t L, unsigned variant) {
    Value root;
    root.k = K_OBJ;
    auto field = [&](Bytes nm, Value v) { v.has_name = true; v.name = nm; root.c.push_back(v); };
    Value one; one.k = ref::K_INT; one.i = 1;
    Value obj; obj.k = K_OBJ; { Value q = one; q.has_name = true; q.name = Bytes{'q'}; obj.c.push_back(q); }
    Value arr; arr.k = K_ARR; arr.c.push_back(one); arr.c.push_back(obj);
    Bytes K(L, (uint8_t)'k');
    switch (variant % 3) {
    case 0: field(Bytes{'a'}, one); field(K, obj); field(Bytes{'z', 'z'}, one); break;
    case 1: { field(Bytes{'a'}, arr); field(K, arr); Bytes kx = K; kx.push_back('x'); field(kx, one); break; }
    default: field(Bytes{'a'}, obj); field(K, one); break;
    }
    std::sort(root.c.begin(), root.c.end(), [](const Value &a, const Value &b) { return ref::cmp_bytes(a.name, b.name) < 0; });
    for (size_t i = 0; i + 1 < root.c.size(); i++) if (root.c[i].name == root.c[i + 1].name) return;  // L collides with a fixed name
    Bytes doc = ref::encode(root);
    ref::Rec rec = ref::recognise(doc.data(), doc.size(), false, 3, true);
    if (!rec.ok) VH_FAIL("harness/name-sweep-doc", "sweep document for L=%zu is not valid", L);
    std::vector<Bytes> probes;
    if (L) probes.push_back(Bytes(L - 1, (uint8_t)'k'));          // strict prefix: misses just before K (or hits nothing)
    probes.push_back(K);                                          // hit
    { Bytes t = K; t.push_back(0x00); probes.push_back(t); }      // extension: misses just after K
    probes.push_back(Bytes{'b'});                                 // sorts between "a" and K (for L >= 1)
    for (size_t pi = 0; pi < probes.size(); pi++) {
        for (int second = 0; second < 2; second++) {
            Session ss(doc, &rec.root, false, 3, true);
            binson_parser *p = ss.pb.p;
            if (!ss.pb.init(false)) VH_FAIL(std::string(prop()) + "/sweep/init", "init failed L=%zu", L);
            auto fail = [&](const char *what) {
                throw Failure{std::string(prop()) + "/name-sweep/" + what, fmt("name length %zu variant %u probe %zu: %s", L, variant % 3, pi, what)};
            };
            if (!binson_parser_go_into_object(p)) fail("enter");
            ss.cur.enter();
            if (second) {  // first stop on the first field (whose value may be an un-entered container), then look up
                bool e = ss.cur.next(), r = binson_parser_next(p);
                if (e != r) fail("next-before-lookup");
                if (r) ss.check_current("name-sweep");
            }
            Block probe(probes[pi]);  // its own exactly-sized block: a valid pointer also for the empty name
            bool e = ss.cur.field(probes[pi]);
            bool r = binson_parser_field_with_length(p, (const char *)probe.p, probe.n);
            if (e != r) fail(r ? "lookup-false-hit" : "lookup-false-miss");
            if (p->error_flags != BINSON_ERROR_NONE) fail("error-after-lookup");
            if (r) {
                ss.check_current("name-sweep");
                if (ss.cur.pending()) {
                    const Value *pend = ss.cur.pending();
                    bbuf raw;
                    if (!binson_parser_get_raw(p, &raw)) fail("get_raw");
                    if (raw.bptr != ss.pb.input.p + pend->tb || raw.bsize != pend->te - pend->tb) fail("raw-span");
                    ss.cur.raw();
                }
            }
            // second lookup of the same probe, then walk the rest
            e = ss.cur.field(probes[pi]);
            r = binson_parser_field_with_length(p, (const char *)probe.p, probe.n);
            if (e != r) fail("second-lookup");
            for (int k = 0; k < 5; k++) {
                bool e2 = ss.cur.next(), r2 = binson_parser_next(p);
                if (e2 != r2) fail(r2 ? "next-extra" : "next-lost-field");
                if (p->error_flags != BINSON_ERROR_NONE) fail("error-after-next");
                if (r2) ss.check_current("name-sweep");
            }
            if (!binson_parser_leave_object(p)) fail("leave");
            if (p->error_flags != BINSON_ERROR_NONE) fail("error-at-end");
        }
    }
}

static void name_sweep(int shard, int nshards, bool thorough) {
    std::vector<size_t> Ls;
    auto range = [&](size_t a, size_t b) { for (size_t l = a; l <= b; l++) Ls.push_back(l); };
    if (thorough) { range(0, 2000); range(32000, 33600); range(65000, 66200); range(69990, 70000); }
    else { range(0, 300); range(32700, 32800); range(65500, 65600); Ls.push_back(70000); }
    Stats &st = stats();
    for (size_t i = 0; i < Ls.size(); i++) {
        if ((int)(i % (size_t)nshards) != shard) continue;
        for (unsigned v = 0; v < 3; v++) {
            try {
                name_sweep_case(Ls[i], v);
            } catch (const Failure &) {
                uint8_t cs[6] = {0xA6, (uint8_t)v};
                uint32_t l32 = (uint32_t)Ls[i];
                memcpy(cs + 2, &l32, 4);
                vh_save_fail_case(cs, 6);
                throw;
            }
            st.evaluations++;
            st.count("enum_name_sweep_cases");
            st.nontrivial(mix(0xA6A6, Ls[i] * 4 + v));
        }
    }
}

#define VH_HAS_ENUM
static int enumerate(int shard, int nshards, const char *tier) {
    unsigned N = (tier && !strcmp(tier, "thorough")) ? 6 : 5;
    if (const char *e = getenv("VH_ENUM_N")) N = (unsigned)atoi(e);
    Shapes shp(N);
    std::vector<std::string> shapes = shp.roots(N);
    Stats &st = stats();
    uint64_t states = 0, transitions = 0;
    // second pass with the prefix-chain naming scheme over the trees that contain an object with >= 2 fields
    const size_t nsh = shapes.size();
    // third pass: every integer holds the byte offset of the token that follows it ("values that equal positions")
    for (size_t ti2 = 0; ti2 < 3 * nsh; ti2++) {
        size_t ti = ti2 % nsh;
        int scheme = (int)(ti2 / nsh);
        if ((int)(ti2 % (size_t)nshards) != shard) continue;
        if (scheme == 1 && shapes[ti].find('{') == std::string::npos) continue;
        if (scheme == 2 && shapes[ti].find('i') == std::string::npos) continue;
        Value tree;
        parse_shape(shapes[ti], 0, tree, scheme == 2 ? 0 : scheme);
        if (scheme == 2) {
            ref::encode(tree);  // fills the spans; all integers are 1-byte, so the offsets do not move when the values change
            struct R { static void go(Value &v) { if (v.k == ref::K_INT) v.i = (int64_t)(v.te <= 127 ? v.te : 5); for (auto &c : v.c) go(c); } };
            R::go(tree);
        }
        Bytes doc = ref::encode(tree);
        bool arr = tree.k == K_ARR;
        unsigned depth = need_depth(tree, arr);
        ref::Rec rec = ref::recognise(doc.data(), doc.size(), arr, depth, true);
        if (!rec.ok) VH_FAIL("harness/enum-tree-invalid", "enumerated tree %s does not encode to a valid document", shapes[ti].c_str());
        Session ss(doc, &rec.root, arr, depth, false);
        if (!ss.pb.init(arr)) VH_FAIL(std::string(prop()) + "/init/ret=false", "init rejected %s", shapes[ti].c_str());
        st.count("enum_trees");
        std::vector<Joint> all;
        std::unordered_map<uint64_t, int> seen;
        auto snap = [&](int parent, const Bytes &opb) {
            Joint j{Bytes(ss.pb.pmem.p, ss.pb.pmem.p + ss.pb.pmem.n), Bytes(ss.pb.smem.p, ss.pb.smem.p + ss.pb.smem.n), ss.cur,
                    {ss.just_left_inner, ss.history, ss.last_lookup_missed}, parent, opb};
            uint64_t k = joint_key(j);
            if (seen.count(k)) return;
            seen[k] = (int)all.size();
            all.push_back(std::move(j));
        };
        snap(-1, Bytes{});
        for (size_t qi = 0; qi < all.size(); qi++) {
            // candidate ops from this joint state
            std::vector<Bytes> ops;
            {
                const Cursor &c = all[qi].cur;
                if (c.done) continue;
                if (!c.in_root()) ops.push_back(Bytes{O_ENTER});
                else {
                    ops.push_back(Bytes{O_NEXT});
                    ops.push_back(Bytes{O_LEAVE});
                    if (c.pending()) { ops.push_back(Bytes{O_ENTER}); ops.push_back(Bytes{O_RAW}); ops.push_back(Bytes{O_TOWRITER}); }
                    if (c.cur && !c.cur->is_container()) ops.push_back(Bytes{O_RAW_SCALAR});
                    if (c.innermost()->k == K_OBJ) {
                        size_t nc = candidates(*c.innermost()).size();
                        for (size_t k = 0; k < nc && k < 250; k++) ops.push_back(Bytes{O_FIELD, (uint8_t)k});
                    }
                }
            }
            for (auto &ob : ops) {
                // restore
                memcpy(ss.pb.pmem.p, all[qi].pbytes.data(), ss.pb.pmem.n);
                memcpy(ss.pb.smem.p, all[qi].sbytes.data(), ss.pb.smem.n);
                ss.cur = all[qi].cur;
                ss.just_left_inner = all[qi].flags[0];
                ss.history = all[qi].flags[1];
                ss.last_lookup_missed = all[qi].flags[2];
                binson_writer_init(&ss.w, ss.wbuf.p, ss.wbuf.n);
                Src os(ob.data(), ob.size());
                uint8_t k = os.u8();
                transitions++;
                try {
                    ss.step(k, os);
                    ss.finish();
                } catch (const Failure &f) {
                    // rebuild the literal script: A7 root depth len16 doc ops...
                    std::vector<Bytes> path;
                    path.push_back(ob);
                    for (int a = (int)qi; a > 0; a = all[a].parent) path.push_back(all[a].opbytes);
                    Bytes cs{0xA7, (uint8_t)arr, (uint8_t)depth, (uint8_t)(doc.size() & 0xff), (uint8_t)(doc.size() >> 8)};
                    cs.insert(cs.end(), doc.begin(), doc.end());
                    for (size_t a = path.size(); a-- > 0;) cs.insert(cs.end(), path[a].begin(), path[a].end());
                    vh_save_fail_case(cs.data(), cs.size());
                    throw;
                }
                if (all[qi].cur.in_root()) st.nontrivial(mix(mix(fnv(doc.data(), doc.size()), qi), fnv(ob.data(), ob.size())));
                snap((int)qi, ob);
            }
        }
        states += all.size();
    }
    name_sweep(shard, nshards, tier && !strcmp(tier, "thorough"));
    st.counters["enum_joint_states"] += states;
    st.counters["enum_transitions"] += transitions;
    st.counters["enum_max_nodes"] = N;
    st.evaluations += transitions;
    return 0;
}

#include "glue.hpp"
