// Enumeration of all small tree shapes over {object, array, int, bool}.
#pragma once
#include "gen.hpp"

namespace vh {

struct Shapes {
    std::vector<std::vector<std::string>> memoF, memoT;
    explicit Shapes(unsigned N) : memoF(N + 1), memoT(N + 1) {}

    const std::vector<std::string> &trees(unsigned s) {
        if (!memoT[s].empty()) return memoT[s];
        std::vector<std::string> r;
        if (s == 1) r = {"i", "b", "{}", "[]"};
        else {
            forests(s - 1);
            for (auto &f : memoF[s - 1]) { r.push_back("{" + f + "}"); r.push_back("[" + f + "]"); }
        }
        memoT[s] = r;
        return memoT[s];
    }
    void forests(unsigned m) {
        if (!memoF[m].empty()) return;
        if (m == 0) { memoF[0] = {""}; return; }
        std::vector<std::string> r;
        for (unsigned s = 1; s <= m; s++) {
            const std::vector<std::string> ts = trees(s);
            forests(m - s);
            for (auto &t : ts) for (auto &rest : memoF[m - s]) r.push_back(t + rest);
        }
        memoF[m] = r;
    }
    // all container-rooted shapes with <= N nodes
    std::vector<std::string> roots(unsigned N) {
        std::vector<std::string> out;
        for (unsigned s = 1; s <= N; s++)
            for (auto &t : trees(s))
                if (t[0] == '{' || t[0] == '[') out.push_back(t);
        return out;
    }
};

// field names: scheme 0 = 'b','d','f',... (gaps for absent-between lookups); scheme 1 = "a","ab","abc",... (every name a
// strict prefix of the next, so that the prefix/extension lookup candidates coincide with present names)
inline size_t parse_shape(const std::string &sh, size_t i, ref::Value &v, int scheme = 0) {
    char ch = sh[i];
    if (ch == 'i') { v.k = ref::K_INT; v.i = 5; return i + 1; }
    if (ch == 'b') { v.k = ref::K_BOOL; v.b = true; return i + 1; }
    bool obj = ch == '{';
    v.k = obj ? ref::K_OBJ : ref::K_ARR;
    i++;
    unsigned n = 0;
    while (sh[i] != '}' && sh[i] != ']') {
        ref::Value c;
        i = parse_shape(sh, i, c, scheme);
        if (obj) {
            c.has_name = true;
            if (scheme == 0) c.name = ref::Bytes{(uint8_t)('b' + 2 * n)};
            else { c.name.clear(); for (unsigned k = 0; k <= n; k++) c.name.push_back((uint8_t)('a' + k)); }
        }
        n++;
        v.c.push_back(std::move(c));
    }
    return i + 1;
}

}  // namespace vh
