// C03 / C10.
//   VH_PROP=C03: a full traversal of a valid document reports exactly what the bytes encode (reference decoder, pointer identity of spans)
//   VH_PROP=C10: decode with the parser, re-encode with the writer: byte-identical (metamorphic, no reference involved)
#include <dirent.h>

#include "doccase.hpp"
#include "walk.hpp"

using namespace vh;

static const char *prop() {
    static const char *p = getenv("VH_PROP") ? getenv("VH_PROP") : "C03";
    return p;
}
static bool is10() { static bool b = !strcmp(prop(), "C10"); return b; }

static DocOpts opts(bool big) {
    DocOpts o;
    o.allow_invalid = false;
    o.depth_sufficient = true;
    o.cfg.max_nodes = 40;
    o.cfg.max_depth = 7;
    o.cfg.max_fan = 6;
    o.cfg.big = big;
    o.force_object_root = is10();
    return o;
}

// ---------------------------------------------------------------------------
// C10: transcription using only the parser's own answers
struct Transcriber {
    binson_parser *p;
    binson_writer *w;
    std::string err;
    unsigned kinds = 0;  // bit set of token kinds seen
    bool wide = false;
    bool container(bool obj) {
        if (!(obj ? binson_parser_go_into_object(p) : binson_parser_go_into_array(p))) { err = "enter failed"; return false; }
        if (!(obj ? binson_write_object_begin(w) : binson_write_array_begin(w))) { err = "write begin failed"; return false; }
        while (binson_parser_next(p)) {
            if (obj) {
                bbuf *n = binson_parser_get_name(p);
                if (!n) { err = "get_name NULL"; return false; }
                if (!binson_write_name_with_len(w, (const char *)n->bptr, n->bsize)) { err = "write name failed"; return false; }
                if (n->bsize >= 128) wide = true;
            }
            switch (binson_parser_get_type(p)) {
            case BINSON_TYPE_OBJECT: kinds |= 1; if (!container(true)) return false; break;
            case BINSON_TYPE_ARRAY: kinds |= 2; if (!container(false)) return false; break;
            case BINSON_TYPE_BOOLEAN: kinds |= 4; if (!binson_write_boolean(w, binson_parser_get_boolean(p))) { err = "write bool failed"; return false; } break;
            case BINSON_TYPE_INTEGER: {
                kinds |= 8;
                int64_t v = binson_parser_get_integer(p);
                if (v < -128 || v > 127) wide = true;
                if (!binson_write_integer(w, v)) { err = "write int failed"; return false; }
                break;
            }
            case BINSON_TYPE_DOUBLE: kinds |= 16; if (!binson_write_double(w, binson_parser_get_double(p))) { err = "write double failed"; return false; } break;
            case BINSON_TYPE_STRING: {
                kinds |= 32;
                bbuf *b = binson_parser_get_string_bbuf(p);
                if (!b) { err = "get_string NULL"; return false; }
                if (b->bsize >= 128) wide = true;
                if (!binson_write_string_with_len(w, (const char *)b->bptr, b->bsize)) { err = "write string failed"; return false; }
                break;
            }
            case BINSON_TYPE_BYTES: {
                kinds |= 64;
                bbuf *b = binson_parser_get_bytes_bbuf(p);
                if (!b) { err = "get_bytes NULL"; return false; }
                if (b->bsize >= 128) wide = true;
                if (!binson_write_bytes(w, b->bptr, b->bsize)) { err = "write bytes failed"; return false; }
                break;
            }
            default: err = "unexpected type"; return false;
            }
        }
        if (p->error_flags != BINSON_ERROR_NONE) { err = std::string("parser error ") + err_name(p->error_flags); return false; }
        if (!(obj ? binson_parser_leave_object(p) : binson_parser_leave_array(p))) { err = "leave failed"; return false; }
        if (!(obj ? binson_write_object_end(w) : binson_write_array_end(w))) { err = "write end failed"; return false; }
        return true;
    }
};

static void check10(const Bytes &doc, unsigned depth, const std::string &what, bool *nontrivial = nullptr) {
    PBox pb;
    pb.make(depth, nullptr, 0, 0);
    pb.set_input(doc);
    if (!pb.init(false)) VH_FAIL("C10/init", "init rejected a valid document; %s", what.c_str());
    Block out(doc.size());
    out.fill(0x77);
    binson_writer w;
    binson_writer_init(&w, out.p, out.n);
    Transcriber t{pb.p, &w, "", 0, false};
    if (!t.container(true)) VH_FAIL("C10/transcribe/" + t.err, "transcription stopped: %s (writer error %s, counter %zu); %s", t.err.c_str(), err_name(w.error_flags), binson_writer_get_counter(&w), what.c_str());
    if (pb.p->error_flags != BINSON_ERROR_NONE || w.error_flags != BINSON_ERROR_NONE) VH_FAIL("C10/error", "parser error %s writer error %s; %s", err_name(pb.p->error_flags), err_name(w.error_flags), what.c_str());
    if (binson_writer_get_counter(&w) != doc.size()) VH_FAIL("C10/size", "re-encoded size %zu, input %zu; %s", binson_writer_get_counter(&w), doc.size(), what.c_str());
    if (memcmp(out.p, doc.data(), doc.size()) != 0) {
        size_t i = 0;
        while (out.p[i] == doc[i]) i++;
        VH_FAIL("C10/bytes", "re-encoded bytes differ at offset %zu: %s; %s", i, ref::hex(out.p, out.n, 160).c_str(), what.c_str());
    }
    if (!pb.input_intact()) VH_FAIL("C10/input-modified", "input modified");
    if (nontrivial) *nontrivial = __builtin_popcount(t.kinds) >= 3 && t.wide;
}

// ---------------------------------------------------------------------------
static const char *kName = "decode";

static void int_decode(int64_t v, uint8_t *buf);
static void len_decode(size_t len, bool bytes, Bytes &e);

static void run_case(Src &s) {
    if (s.left() >= 10 && s.p[s.i] == 0xA8 && !is10()) {  // literal sweep case written by the enumerator
        unsigned kind = s.p[s.i + 1];
        uint64_t v;
        memcpy(&v, s.p + s.i + 2, 8);
        uint8_t buf[16];
        Bytes e;
        if (kind == 0) int_decode((int64_t)v, buf); else len_decode((size_t)(v % 70001), kind == 2, e);
        return;
    }
    uint8_t h = s.u8();
    bool big = (h & 0x0f) == 0x0f;
    DocCase c = decode_doc(s, opts(big));
    Stats &st = stats();
    // the case's max_depth applies as generated; documents that do not fit it are outside "valid document" for this parser
    ref::Rec rec = ref::recognise(c.doc.data(), c.doc.size(), c.array_root, c.depth, true);
    if (!rec.ok) { st.label("skipped:not-valid-at-this-depth"); return; }
    std::string what = fmt("root=%s max_depth=%u doc(%zu)=%s", c.array_root ? "array" : "object", c.depth, c.doc.size(), ref::hex(c.doc, 200).c_str());
    if (is10()) {
        if (c.array_root) { st.label("skipped:array-root"); return; }
        bool nt = false;
        check10(c.doc, c.depth, what, &nt);
        if (nt) st.nontrivial(fnv(c.doc.data(), c.doc.size()));
        st.label(nt ? "non-trivial" : "trivial");
        if (st.want_sample(nt ? "non-trivial" : "trivial", 2)) st.sample(nt ? "non-trivial" : "trivial", what.substr(0, 300));
        return;
    }
    PBox pb;
    pb.make(c.depth, nullptr, 0, 0);
    pb.set_input(c.doc);
    if (!pb.init(c.array_root)) VH_FAIL("C03/init", "init rejected a valid document; %s", what.c_str());
    Walker w(pb, "C03", what);
    w.run(rec.root);
    bool nt = w.ws.wide_int || w.ws.long_len || w.ws.max_nest >= 2;
    if (nt) st.nontrivial(fnv(c.doc.data(), c.doc.size()));
    if (w.ws.wide_int) st.label("int>1byte");
    if (w.ws.long_len) st.label("len>=128");
    if (w.ws.max_nest >= 2) st.label("nesting>=2");
    if (c.doc.size() > 4096) st.label("doc>4KiB");
    st.label(c.array_root ? "root:array" : "root:object");
    st.count("elements", w.ws.elements);
    if (st.want_sample(nt ? "non-trivial" : "trivial", 2)) st.sample(nt ? "non-trivial" : "trivial", what.substr(0, 300) + " tree: " + ref::sketch(rec.root, 30));
}

static void describe_case(Src &s, FILE *out) {
    uint8_t h = s.u8();
    DocCase c = decode_doc(s, opts((h & 0x0f) == 0x0f));
    fprintf(out, "%s\n", describe_doc(c).c_str());
}

#define VH_HAS_WRAP
static size_t wrap_raw(const uint8_t *doc, size_t n, unsigned variant, uint8_t *out, size_t cap) {
    (void)variant;
    if (!cap) return 0;
    out[0] = 0;
    size_t k = wrap_raw_doc(doc, n, 8u, out + 1, cap - 1);
    return k ? k + 1 : 0;
}

// ---------------------------------------------------------------------------
// sweeps: every integer encoding around the width boundaries (thorough: every 1-, 2- and 4-byte encoding),
// every string / bytes length; C10: every shipped valid corpus file.
static void int_decode(int64_t v, uint8_t *buf) {
    // [v] as an array-rooted document, encoded by the reference encoder
    Bytes e{0x42};
    ref::put_int(e, 0x10, v);
    e.push_back(0x43);
    memcpy(buf, e.data(), e.size());
    binson_state stt[1];
    binson_parser p;
    p.state = stt;
    p.max_depth = 1;
    bool ok = binson_parser_init_array(&p, buf, e.size()) && binson_parser_go_into_array(&p) && binson_parser_next(&p);
    if (!ok || binson_parser_get_type(&p) != BINSON_TYPE_INTEGER || binson_parser_get_integer(&p) != v || binson_parser_get_boolean(&p) || binson_parser_get_string_bbuf(&p) ||
        binson_parser_next(&p) || !binson_parser_leave_array(&p) || p.error_flags != BINSON_ERROR_NONE) {
        uint8_t cs[10] = {0xA8, 0};
        memcpy(cs + 2, &v, 8);
        vh_save_fail_case(cs, 10);
        VH_FAIL("C03/int-sweep", "encoding %s of %" PRId64 " decodes to %" PRId64 " (type %d, error %s)", ref::hex(e).c_str(), v, binson_parser_get_integer(&p), (int)binson_parser_get_type(&p), err_name(p.error_flags));
    }
}

static void len_decode(size_t len, bool bytes, Bytes &e) {
    e.clear();
    e.push_back(0x42);
    ref::put_int(e, bytes ? 0x18 : 0x14, (int64_t)len);
    size_t pb = e.size();
    e.resize(e.size() + len, 0x61);
    e.push_back(0x43);
    Block in(e);
    binson_state stt[1];
    binson_parser p;
    p.state = stt;
    p.max_depth = 1;
    bool ok = binson_parser_init_array(&p, in.p, in.n) && binson_parser_go_into_array(&p) && binson_parser_next(&p);
    bbuf *b = ok ? (bytes ? binson_parser_get_bytes_bbuf(&p) : binson_parser_get_string_bbuf(&p)) : nullptr;
    bbuf *other = ok ? (bytes ? binson_parser_get_string_bbuf(&p) : binson_parser_get_bytes_bbuf(&p)) : nullptr;
    if (!ok || !b || other || b->bsize != len || (len && b->bptr != in.p + pb) || binson_parser_next(&p) || !binson_parser_leave_array(&p) || p.error_flags != BINSON_ERROR_NONE) {
        uint8_t cs[10] = {0xA8, (uint8_t)(1 + bytes)};
        uint64_t v = len;
        memcpy(cs + 2, &v, 8);
        vh_save_fail_case(cs, 10);
        VH_FAIL("C03/len-sweep", "%s of length %zu is not reported as the exact sub-span", bytes ? "bytes" : "string", len);
    }
}

#define VH_HAS_ENUM
static int enumerate(int shard, int nshards, const char *tier) {
    Stats &st = stats();
    bool thorough = tier && !strcmp(tier, "thorough");
    if (is10()) {
        // every shipped valid corpus file, object-rooted, depth 255 (the files are verified by the reference recogniser first)
        const char *dir = getenv("VH_VALID_DIR");
        if (!dir) return 0;
        DIR *d = opendir(dir);
        if (!d) return 0;
        std::vector<std::string> names;
        while (dirent *e = readdir(d)) if (e->d_name[0] != '.') names.push_back(e->d_name);
        closedir(d);
        std::sort(names.begin(), names.end());
        for (size_t i = 0; i < names.size(); i++) {
            if ((int)(i % (size_t)nshards) != shard) continue;
            std::string path = std::string(dir) + "/" + names[i];
            FILE *f = fopen(path.c_str(), "rb");
            if (!f) continue;
            Bytes doc;
            uint8_t buf[4096];
            size_t k;
            while ((k = fread(buf, 1, sizeof buf, f)) > 0) doc.insert(doc.end(), buf, buf + k);
            fclose(f);
            ref::Rec rec = ref::recognise(doc.data(), doc.size(), false, 255, false);
            if (!rec.ok) { st.count("corpus_files_not_valid"); continue; }
            try {
                check10(doc, 255, "corpus file " + names[i]);
            } catch (const Failure &) {
                std::vector<uint8_t> out(doc.size() + 16);
                out[0] = 0;
                size_t n = wrap_raw_doc(doc.data(), doc.size(), 8u, out.data() + 1, out.size() - 1);
                vh_save_fail_case(out.data(), n + 1);
                throw;
            }
            st.count("corpus_files_transcribed");
            st.evaluations++;
            st.nontrivial(fnv(doc.data(), doc.size()));
        }
        return 0;
    }
    uint8_t buf[16];
    uint64_t n = 0, idx = 0, m = 0, l = 0;
    for (int k = 0; k < 64; k++)
        for (int sign = 0; sign < 2; sign++) {
            uint64_t base = 1ULL << k;
            if (sign) base = (uint64_t)0 - base;
            if (((idx++) % (uint64_t)nshards) != (uint64_t)shard) continue;
            for (int64_t off = -65536; off <= 65536; off++) {
                int64_t v = (int64_t)(base + (uint64_t)off);
                int_decode(v, buf);
                if ((off & 63) == 0) st.nontrivial(mix(0x1234, (uint64_t)v));
                n++;
            }
        }
    if (thorough) {
        uint64_t per = (1ULL << 32) / (uint64_t)nshards;
        uint64_t lo = per * (uint64_t)shard, hi = (shard == nshards - 1) ? (1ULL << 32) : lo + per;
        for (uint64_t u = lo; u < hi; u++) { int_decode((int64_t)(int32_t)(uint32_t)u, buf); m++; }
    }
    Bytes e;
    e.reserve(70010);
    auto do_len = [&](size_t len) {
        if ((len % (size_t)nshards) != (size_t)shard) return;
        for (int b = 0; b < 2; b++) { len_decode(len, b, e); st.nontrivial(mix(0x4321 + (uint64_t)b, len)); l++; }
    };
    if (thorough) for (size_t len = 0; len <= 70000; len++) do_len(len);
    else {
        for (size_t len = 0; len <= 300; len++) do_len(len);
        for (size_t len = 32700; len <= 32800; len++) do_len(len);
        for (size_t len = 65500; len <= 65600; len++) do_len(len);
        do_len(70000);
    }
    st.counters["enum_boundary_integers"] += n;
    st.counters["enum_all_int32"] += m;
    st.counters["enum_lengths"] += l;
    st.evaluations += n + m + l;
    return 0;
}

#include "glue.hpp"
