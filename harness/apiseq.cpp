// C01 / C09 (parser half) / C16: arbitrary byte strings x arbitrary call
// sequences over the whole public parser API, return values ignored by the
// script.  Every caller-supplied object lives in an exactly-sized heap block.
//   VH_PROP=C01: spans inside the buffer, input never modified (ASan/UBSan watch the rest)
//   VH_PROP=C09: once an error code is set everything is neutral until reset/init/verify
//   VH_PROP=C16: token callbacks per call <= bytes advanced + small constant; cursor never moves back
#include "apiops.hpp"

static DocOpts opts(bool big) {
    DocOpts o;
    o.cfg.max_nodes = 30;
    o.cfg.max_depth = 6;
    o.cfg.max_fan = 5;
    o.cfg.big = big;
    return o;
}

static const char *kName = "apiseq";

struct Decoded {
    DocCase c;
    Bytes prefill;
    uint8_t state_fill;
    bool first_arr;
    bool smart;
};

static Decoded decode(Src &s) {
    Decoded d;
    uint8_t h = s.u8();
    bool big = (h & 0x70) == 0x70;
    d.state_fill = (h & 1) ? s.u8() : 0;
    unsigned npf = (h & 2) ? 1 + s.u8() % 16 : 0;
    for (unsigned i = 0; i < npf; i++) d.prefill.push_back(s.u8());
    if ((h & 12) == 12) d.prefill = Bytes{0xAA};
    d.c = decode_doc(s, opts(big));
    d.first_arr = d.c.array_root;
    d.smart = (h & 0x80) != 0;
    return d;
}

static void execute(Run &r, Decoded &d, Src &s) {
    r.doc = d.c.doc;
    r.pb.make(d.c.depth, d.prefill.data(), d.prefill.size(), d.state_fill);
    r.pb.set_input(d.c.doc);
    r.wbuf.alloc(2 * d.c.doc.size() + 16);
    binson_writer_init(&r.w, r.wbuf.p, r.wbuf.n);
    // the script always starts with an init (the only defined way to start)
    r.call(d.first_arr ? A_INIT_ARR : A_INIT_OBJ, s);
    for (unsigned i = 0; i < 64 && !s.dry(); i++) {
        uint8_t b = s.u8();
        r.call(d.smart ? pick_smart(b, r) : pick(b), s);
    }
    if (!r.pb.input_intact()) r.fail("any", "input-modified", "the input buffer was modified");
}

static void run_case(Src &s) {
    Decoded d = decode(s);
    size_t at = s.i;
    Run r;
    try {
        execute(r, d, s);
    } catch (const Failure &) {
        Run r2;
        r2.keep_log = true;
        Src s2(s.p, s.n);
        s2.i = at;
        execute(r2, d, s2);
        throw;
    }
    Stats &st = stats();
    bool nt;
    if (is09()) nt = r.calls_after_latch >= 3 && r.adv_after_latch >= 1 && r.get_after_latch >= 1;
    else if (is16()) nt = r.multi_token_calls >= 1;
    else nt = r.adv_ok >= 1 || r.rejected_init_then_call;
    if (nt) st.nontrivial(mix(fnv(d.c.doc.data(), d.c.doc.size()), r.ophash));
    if (r.rejected_init_then_call) st.label("rejected-init-then-call");
    if (r.adv_ok) st.label("advancing-call-succeeded");
    if (r.spans) st.label("span-returned");
    if (r.calls_after_latch) st.label("calls-after-error");
    if (r.latch_err) st.label(std::string("error:") + err_name(r.latch_err));
    if (!d.prefill.empty()) st.label("struct-prefilled");
    st.label(d.smart ? "script:protocol-aware" : "script:arbitrary");
    if (d.c.doc.size() > 4096) st.label("doc>4KiB");
    st.label(fmt("mode:%u", d.c.mode));
    const char *cl = nt ? "non-trivial" : "trivial";
    if (st.want_sample(cl, 2)) {
        Run r2;
        r2.keep_log = true;
        Src s2(s.p, s.n);
        s2.i = at;
        execute(r2, d, s2);
        st.sample(cl, r2.ctx().substr(0, 900));
    }
}

static void describe_case(Src &s, FILE *out) {
    Decoded d = decode(s);
    fprintf(out, "%s\n  struct prefill: %s  state fill: %02x\n", describe_doc(d.c).c_str(), d.prefill.empty() ? "zero" : ref::hex(d.prefill).c_str(), d.state_fill);
    Run r;
    r.keep_log = true;
    r.echo = out;
    try {
        execute(r, d, s);
    } catch (const Failure &f) {
        fprintf(out, "  FAILS: %s\n", f.sig.c_str());
    }
    fprintf(out, "  ops: ");
    for (auto &l : r.log) fprintf(out, "%s; ", l.c_str());
    fprintf(out, "\n");
}

#define VH_HAS_WRAP
static size_t wrap_raw(const uint8_t *doc, size_t n, unsigned variant, uint8_t *out, size_t cap) {
    if (cap < 1) return 0;
    out[0] = 0;  // header: zero prefill, small docs
    size_t k = wrap_raw_doc(doc, n, variant, out + 1, cap - 1);
    return k ? k + 1 : 0;
}

#include "glue.hpp"
