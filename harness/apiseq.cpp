// C01 / C09 (parser half) / C16: arbitrary byte strings x arbitrary call
// sequences over the whole public parser API, return values ignored by the
// script.  Every caller-supplied object lives in an exactly-sized heap block.
//   VH_PROP=C01: spans inside the buffer, input never modified (ASan/UBSan watch the rest)
//   VH_PROP=C09: once an error code is set everything is neutral until reset/init/verify
//   VH_PROP=C16: token callbacks per call <= bytes advanced + small constant; cursor never moves back
#include <signal.h>

#include "apiops.hpp"

static DocOpts opts(bool big) {
    DocOpts o;
    o.cfg.max_nodes = 30;
    o.cfg.max_depth = 6;
    o.cfg.max_fan = 5;
    o.cfg.big = big;
    return o;
}

static const char *kName = "apiseq";

struct Decoded {
    DocCase c;
    Bytes prefill;
    uint8_t state_fill;
    bool first_arr;
    bool smart;
};

static Decoded decode(Src &s) {
    Decoded d;
    uint8_t h = s.u8();
    bool big = (h & 0x70) == 0x70;
    d.state_fill = (h & 1) ? s.u8() : 0;
    unsigned npf = (h & 2) ? 1 + s.u8() % 16 : 0;
    for (unsigned i = 0; i < npf; i++) d.prefill.push_back(s.u8());
    if ((h & 12) == 12) d.prefill = Bytes{0xAA};
    d.c = decode_doc(s, opts(big));
    d.first_arr = d.c.array_root;
    d.smart = (h & 0x80) != 0;
    return d;
}

static void execute(Run &r, Decoded &d, Src &s) {
    r.doc = d.c.doc;
    r.pb.make(d.c.depth, d.prefill.data(), d.prefill.size(), d.state_fill);
    r.pb.set_input(d.c.doc);
    r.wbuf.alloc(2 * d.c.doc.size() + 16);
    binson_writer_init(&r.w, r.wbuf.p, r.wbuf.n);
    // the script always starts with an init (the only defined way to start)
    r.call(d.first_arr ? A_INIT_ARR : A_INIT_OBJ, s);
    for (unsigned i = 0; i < 64 && !s.dry(); i++) {
        uint8_t b = s.u8();
        r.call(d.smart ? pick_smart(b, r) : pick(b), s);
    }
    if (!r.pb.input_intact()) r.fail("any", "input-modified", "the input buffer was modified");
}

static void c16_sweep_case(size_t L, unsigned variant);

static void trunc_case(unsigned di, size_t cut, unsigned variant, unsigned script);

static void run_case(Src &s) {
    if (s.left() >= 8 && s.p[s.i] == 0xAC) {  // literal truncation-sweep case
        uint32_t c32;
        memcpy(&c32, s.p + s.i + 4, 4);
        trunc_case(s.p[s.i + 1], c32, s.p[s.i + 2], s.p[s.i + 3] % 9);
        return;
    }
    if (s.left() >= 6 && s.p[s.i] == 0xA9 && is16()) {  // literal sweep case written by the enumerator
        uint32_t l32;
        memcpy(&l32, s.p + s.i + 2, 4);
        c16_sweep_case(l32 % 70000, s.p[s.i + 1]);
        return;
    }
    Decoded d = decode(s);
    size_t at = s.i;
    Run r;
    try {
        execute(r, d, s);
    } catch (const Failure &) {
        Run r2;
        r2.keep_log = true;
        Src s2(s.p, s.n);
        s2.i = at;
        execute(r2, d, s2);
        throw;
    }
    Stats &st = stats();
    bool nt;
    if (is09()) nt = r.calls_after_latch >= 3 && r.adv_after_latch >= 1 && r.get_after_latch >= 1;
    else if (is16()) nt = r.multi_token_calls >= 1;
    else nt = r.adv_ok >= 1 || r.rejected_init_then_call;
    if (nt) st.nontrivial(mix(fnv(d.c.doc.data(), d.c.doc.size()), r.ophash));
    if (r.rejected_init_then_call) st.label("rejected-init-then-call");
    if (r.adv_ok) st.label("advancing-call-succeeded");
    if (r.spans) st.label("span-returned");
    if (r.calls_after_latch) st.label("calls-after-error");
    if (r.latch_err) st.label(std::string("error:") + err_name(r.latch_err));
    if (!d.prefill.empty()) st.label("struct-prefilled");
    st.label(d.smart ? "script:protocol-aware" : "script:arbitrary");
    if (d.c.doc.size() > 4096) st.label("doc>4KiB");
    st.label(fmt("mode:%u", d.c.mode));
    const char *cl = nt ? "non-trivial" : "trivial";
    if (st.want_sample(cl, 2)) {
        Run r2;
        r2.keep_log = true;
        Src s2(s.p, s.n);
        s2.i = at;
        execute(r2, d, s2);
        st.sample(cl, r2.ctx().substr(0, 900));
    }
}

static void describe_case(Src &s, FILE *out) {
    if (s.left() >= 8 && s.p[s.i] == 0xAC) {
        uint32_t c32;
        memcpy(&c32, s.p + s.i + 4, 4);
        fprintf(out, "  truncation-sweep case: document %u cut at %u, %s closing byte, script %u\n", s.p[s.i + 1], c32, (s.p[s.i + 2] & 1) ? "with" : "without", s.p[s.i + 3] % 9);
        return;
    }
    if (s.left() >= 6 && s.p[s.i] == 0xA9 && is16()) {
        uint32_t l32;
        memcpy(&l32, s.p + s.i + 2, 4);
        fprintf(out, "  C16 name-sweep case: name length %u, variant %u\n", l32, s.p[s.i + 1]);
        return;
    }
    Decoded d = decode(s);
    fprintf(out, "%s\n  struct prefill: %s  state fill: %02x\n", describe_doc(d.c).c_str(), d.prefill.empty() ? "zero" : ref::hex(d.prefill).c_str(), d.state_fill);
    Run r;
    r.keep_log = true;
    r.echo = out;
    try {
        execute(r, d, s);
    } catch (const Failure &f) {
        fprintf(out, "  FAILS: %s\n", f.sig.c_str());
    }
    fprintf(out, "  ops: ");
    for (auto &l : r.log) fprintf(out, "%s; ", l.c_str());
    fprintf(out, "\n");
}

#define VH_HAS_WRAP
static size_t wrap_raw(const uint8_t *doc, size_t n, unsigned variant, uint8_t *out, size_t cap) {
    if (cap < 1) return 0;
    out[0] = 0;  // header: zero prefill, small docs
    size_t k = wrap_raw_doc(doc, n, variant, out + 1, cap - 1);
    return k ? k + 1 : 0;
}


// ---------------------------------------------------------------------------
// C16 deterministic sweep: for every swept field-name length L the document {"a":[true x 60], K(L): 1, K(L)+"x": 2};
// the cursor stops on the un-entered array, then lookups that overshoot onto K, hit K, and miss after it are each
// measured (token callbacks vs. bytes advanced); a per-document alarm turns a hang into exit code 77.
// variants 2, 3: the array [ <string | bytes of L bytes>, 1 ] - verify, a walk with the getters, get_raw of the root, and
// to_string with the NULL query, the exact size, one less and one more, all under the same alarm and token/byte bound
static void c16_payload_case(size_t L, unsigned variant) {
    Value root;
    root.k = ref::K_ARR;
    Value pl;
    pl.k = variant == 2 ? ref::K_STR : ref::K_BYT;
    pl.s = Bytes(L, (uint8_t)(variant == 2 ? 'p' : 0xA5));
    root.c.push_back(pl);
    Value one; one.k = ref::K_INT; one.i = 1;
    root.c.push_back(one);
    Bytes doc = ref::encode(root);
    PBox pb;
    pb.make(2, nullptr, 0, 0);
    pb.set_input(doc);
    binson_parser *p = pb.p;
    auto fail = [&](const char *what, uint64_t tokens, uint64_t adv) {
        throw Failure{std::string("C16/payload-sweep/") + what, fmt("%s of %zu bytes: %s (%" PRIu64 " token callbacks, %" PRIu64 " bytes)", variant == 2 ? "string" : "bytes", L, what, tokens, adv)};
    };
    // only termination (the alarm) and the token/byte bound are judged here: what the calls return is C03/C13's business
    if (!pb.init(true)) return;
    Count cnt{0};
    p->cb = count_cb;
    p->cb_context = &cnt;
    (void)binson_parser_verify(p);
    p->cb = NULL;
    p->cb_context = NULL;
    if (cnt.tokens > doc.size() + 1) fail("verify/tokens>len", cnt.tokens, doc.size());
    (void)binson_parser_go_into_array(p);
    (void)binson_parser_next(p);
    (void)binson_parser_get_string_bbuf(p);
    (void)binson_parser_get_bytes_bbuf(p);
    (void)binson_parser_next(p);
    (void)binson_parser_leave_array(p);
#ifdef BINSON_PARSER_WITH_PRINT
    size_t need = 0;
    (void)binson_parser_to_string(p, nullptr, &need, false);
    if (need > 4 * L + 4096) need = 4 * L + 4096;
    const size_t caps[] = {need ? need - 1 : 0, need, need + 1, 2 * L + 64, 4 * L + 4096};
    for (size_t cap : caps) {
        Block dst(cap);
        size_t sz = cap;
        (void)binson_parser_to_string(p, (char *)dst.p, &sz, false);
    }
#endif
}

static void c16_sweep_case(size_t L, unsigned variant) {
    if (variant >= 2) { c16_payload_case(L, variant & 3); return; }
    Value root;
    root.k = ref::K_OBJ;
    Value arr; arr.k = ref::K_ARR;
    for (int i = 0; i < 60; i++) { Value t; t.k = ref::K_BOOL; t.b = true; arr.c.push_back(t); }
    Value one; one.k = ref::K_INT; one.i = 1;
    Bytes K(L, (uint8_t)'k'), Kx = K;
    Kx.push_back('x');
    auto field = [&](Bytes nm, Value v) { v.has_name = true; v.name = nm; root.c.push_back(v); };
    field(Bytes{'a'}, arr);
    if (L) field(K, variant & 1 ? arr : one);
    field(Kx, one);
    std::sort(root.c.begin(), root.c.end(), [](const Value &a, const Value &b) { return ref::cmp_bytes(a.name, b.name) < 0; });
    for (size_t i = 0; i + 1 < root.c.size(); i++) if (root.c[i].name == root.c[i + 1].name) return;
    Bytes doc = ref::encode(root);
    PBox pb;
    pb.make(2, nullptr, 0, 0);
    pb.set_input(doc);
    binson_parser *p = pb.p;
    auto fail = [&](const char *what, uint64_t tokens, uint64_t adv) {
        throw Failure{std::string("C16/name-sweep/") + what, fmt("name length %zu variant %u: %s (%" PRIu64 " token callbacks, %" PRIu64 " bytes advanced)", L, variant, what, tokens, adv)};
    };
    if (!pb.init(false)) fail("init", 0, 0);
    Count cnt{0};
    auto measured = [&](const char *what, uint64_t slack, std::function<bool()> call) {
        cnt.tokens = 0;
        p->cb = count_cb;
        p->cb_context = &cnt;
        size_t before = p->buffer_used;
        bool r = call();
        p->cb = NULL;
        p->cb_context = NULL;
        size_t after = p->buffer_used;
        if (after < before) fail("cursor-moved-back", cnt.tokens, 0);
        if (cnt.tokens > (after - before) + slack) fail(what, cnt.tokens, after - before);
        if (p->error_flags != BINSON_ERROR_NONE) fail("error", cnt.tokens, after - before);
        return r;
    };
    Bytes b{'b'};
    measured("go_into_object/tokens>bytes", 1, [&] { return binson_parser_go_into_object(p); });
    measured("next/tokens>bytes", 1, [&] { return binson_parser_next(p); });   // stops on the un-entered array "a"
    for (int i = 0; i < 4; i++)  // "b" sorts between "a" and K: the first lookup skips the array and overshoots onto K, the others re-read only K
        if (measured("field(miss)/tokens>bytes", 2, [&] { return binson_parser_field_with_length(p, (const char *)b.data(), b.size()); })) fail("absent-name-found", 0, 0);
    if (L) {
        if (!measured("field(hit)/tokens>bytes", 2, [&] { return binson_parser_field_with_length(p, (const char *)K.data(), K.size()); })) fail("present-name-not-found", 0, 0);
        Bytes after = K;
        after.push_back(0);
        for (int i = 0; i < 3; i++)
            if (measured("field(miss-after)/tokens>bytes", 2, [&] { return binson_parser_field_with_length(p, (const char *)after.data(), after.size()); })) fail("absent-name-found", 0, 0);
    }
    if (!measured("field(hit)/tokens>bytes", 2, [&] { return binson_parser_field_with_length(p, (const char *)Kx.data(), Kx.size()); })) fail("present-name-not-found", 0, 0);
    measured("leave_object/tokens>bytes", 1, [&] { return binson_parser_leave_object(p); });
    cnt.tokens = 0;
    p->cb = count_cb;
    p->cb_context = &cnt;
    bool v = binson_parser_verify(p);
    p->cb = NULL;
    if (!v) fail("verify-rejects", 0, 0);
    if (cnt.tokens > doc.size() + 1) fail("verify/tokens>len", cnt.tokens, doc.size());
}


// ---------------------------------------------------------------------------
// C01 deterministic sweep: a set of documents that together hold every token kind with 1-, 2- and 4-byte length
// prefixes is cut at EVERY offset (with and without the closing byte appended), and fixed call scripts - walk
// entering everything, lookups of smaller / equal / larger names at every level, verify, to_string, get_raw - run
// over each prefix in exactly-sized heap blocks.  Oracle: ASan/UBSan silence, spans inside the buffer.
static void trunc_script(const Bytes &doc, bool arr, unsigned script) {
    Run r;
    r.doc = doc;
    r.pb.make(12, nullptr, 0, 0);
    r.pb.set_input(doc);
    r.wbuf.alloc(2 * doc.size() + 16);
    binson_writer_init(&r.w, r.wbuf.p, r.wbuf.n);
    binson_parser *p = r.pb.p;
    r.cur_buf = r.pb.input.p;
    r.cur_len = r.pb.input.n;
    bool ok = arr ? binson_parser_init_array(p, r.pb.input.p, r.pb.input.n) : binson_parser_init_object(p, r.pb.input.p, r.pb.input.n);
    (void)ok;  // results are ignored on purpose
    auto spans = [&]() {
        r.check_span("get_name", p->error_flags == BINSON_ERROR_NONE && !arr ? binson_parser_get_name(p) : nullptr);
        r.check_span("get_string_bbuf", binson_parser_get_string_bbuf(p));
        r.check_span("get_bytes_bbuf", binson_parser_get_bytes_bbuf(p));
    };
    static const char *probes[] = {"", "a", "m", "zz", "\x7f\x7f"};
    switch (script) {
    case 0: {  // walk entering everything
        std::vector<bool> st;
        if (!(arr ? binson_parser_go_into_array(p) : binson_parser_go_into_object(p))) break;
        st.push_back(!arr);
        for (int k = 0; k < 400 && !st.empty(); k++) {
            if (!binson_parser_next(p)) { if (!(st.back() ? binson_parser_leave_object(p) : binson_parser_leave_array(p))) break; st.pop_back(); continue; }
            if (st.back()) r.check_span("get_name", binson_parser_get_name(p));
            r.check_span("get_string_bbuf", binson_parser_get_string_bbuf(p));
            r.check_span("get_bytes_bbuf", binson_parser_get_bytes_bbuf(p));
            binson_type t = binson_parser_get_type(p);
            if (t == BINSON_TYPE_OBJECT && binson_parser_go_into_object(p)) st.push_back(true);
            else if (t == BINSON_TYPE_ARRAY && binson_parser_go_into_array(p)) st.push_back(false);
        }
        break;
    }
    case 1: case 2: case 3: case 4: case 5: {  // lookups with one probe name at every object level reached by diving
        const char *nm = probes[script - 1];
        if (arr) { if (!binson_parser_go_into_array(p)) break; if (!binson_parser_next(p)) break; if (binson_parser_get_type(p) != BINSON_TYPE_OBJECT || !binson_parser_go_into_object(p)) break; }
        else if (!binson_parser_go_into_object(p)) break;
        for (int lvl = 0; lvl < 6; lvl++) {
            for (int rep = 0; rep < 3; rep++) { bool f = binson_parser_field(p, nm); if (f) spans(); }
            bool f = binson_parser_field_ensure(p, "o", BINSON_TYPE_OBJECT);  // descend through a field named "o" when present
            if (!f || !binson_parser_go_into_object(p)) break;
        }
        while (binson_parser_next(p)) spans();
        binson_parser_leave_object(p);
        break;
    }
    case 6: (void)binson_parser_verify(p); break;
    case 7: {
#ifdef BINSON_PARSER_WITH_PRINT
        size_t sz = 0;
        binson_parser_to_string(p, nullptr, &sz, false);
        Block dst(sz);
        size_t cap = sz;
        binson_parser_to_string(p, (char *)dst.p, &cap, false);
#endif
        break;
    }
    default: {  // next + get_raw / to_writer on everything at the top level
        if (!(arr ? binson_parser_go_into_array(p) : binson_parser_go_into_object(p))) break;
        for (int k = 0; k < 40 && binson_parser_next(p); k++) {
            bbuf raw;
            if (binson_parser_get_raw(p, &raw)) r.check_span("get_raw", &raw);
        }
        break;
    }
    }
    if (!r.pb.input_intact()) r.fail("any", "input-modified", "the input buffer was modified");
}

static std::vector<std::pair<Bytes, bool>> trunc_docs() {
    std::vector<std::pair<Bytes, bool>> docs;
    auto named = [](Value v, Bytes n) { v.has_name = true; v.name = n; return v; };
    Value i8; i8.k = ref::K_INT; i8.i = 5;
    Value i16 = i8; i16.i = 300;
    Value i32 = i8; i32.i = 70000;
    Value i64 = i8; i64.i = (int64_t)1 << 40;
    Value d; d.k = ref::K_DBL; d.d = 0x400921fb54442d18ULL;
    Value t; t.k = ref::K_BOOL; t.b = true;
    Value s1; s1.k = ref::K_STR; s1.s = Bytes(3, 's');
    Value s2 = s1; s2.s = Bytes(130, 's');
    Value b1; b1.k = ref::K_BYT; b1.s = Bytes(2, 0x80);
    Value b2 = b1; b2.s = Bytes(131, 0x81);
    Value inner; inner.k = ref::K_OBJ; inner.c.push_back(named(i8, Bytes{'a'})); inner.c.push_back(named(s1, Bytes{'q'}));
    Value arr; arr.k = ref::K_ARR; arr.c.push_back(i8); arr.c.push_back(inner); arr.c.push_back(s1);
    // object with short names and every scalar kind
    { Value o; o.k = ref::K_OBJ; o.c = {named(i8, Bytes{'a'}), named(i16, Bytes{'b'}), named(i32, Bytes{'c'}), named(i64, Bytes{'d'}), named(d, Bytes{'e'}), named(t, Bytes{'f'}), named(s1, Bytes{'g'}),
                                        named(b1, Bytes{'h'}), named(arr, Bytes{'n'}), named(inner, Bytes{'o'}), named(s2, Bytes{'p'}), named(b2, Bytes{'q'})};
      docs.push_back({ref::encode(o), false}); }
    // names with 2-byte length prefixes (128..140 bytes), small values in between
    { Value o; o.k = ref::K_OBJ; o.c = {named(i8, Bytes{'a'}), named(i8, Bytes(128, 'k')), named(inner, Bytes(129, 'k')), named(s1, Bytes(140, 'l')), named(inner, Bytes{'o'})};
      std::sort(o.c.begin(), o.c.end(), [](const Value &x, const Value &y) { return ref::cmp_bytes(x.name, y.name) < 0; });
      docs.push_back({ref::encode(o), false}); }
    // nested objects reachable through "o"
    { Value l3 = inner; Value l2; l2.k = ref::K_OBJ; l2.c = {named(i8, Bytes{'a'}), named(l3, Bytes{'o'}), named(i16, Bytes{'z'})};
      Value l1; l1.k = ref::K_OBJ; l1.c = {named(arr, Bytes{'a'}), named(l2, Bytes{'o'}), named(s1, Bytes{'z', 'z'})};
      docs.push_back({ref::encode(l1), false}); }
    // array roots
    { Value a; a.k = ref::K_ARR; a.c = {inner, i8, arr, s2, b1, d, t};
      docs.push_back({ref::encode(a), true}); }
    { Value a; a.k = ref::K_ARR; Value deep = i8; for (int k = 0; k < 6; k++) { Value w; w.k = ref::K_ARR; w.c.push_back(deep); w.c.push_back(i8); deep = w; } a.c = {deep, inner};
      docs.push_back({ref::encode(a), true}); }
    // a name with a 4-byte length prefix
    { Value o; o.k = ref::K_OBJ; o.c = {named(i8, Bytes{'a'}), named(i8, Bytes(33000, 'k')), named(i8, Bytes{'z'})};
      docs.push_back({ref::encode(o), false}); }
    return docs;
}

static void trunc_case(unsigned di, size_t cut, unsigned variant, unsigned script) {
    std::vector<std::pair<Bytes, bool>> docs = trunc_docs();
    const Bytes &full = docs[di % docs.size()].first;
    bool arr = docs[di % docs.size()].second;
    if (cut > full.size()) cut = full.size();
    Bytes doc(full.begin(), full.begin() + (long)cut);
    if (variant & 1) doc.push_back(arr ? 0x43 : 0x41);
    trunc_script(doc, arr, script);
}

static void on_sweep_alarm(int) { _exit(77); }

#define VH_HAS_ENUM
static int enumerate(int shard, int nshards, const char *tier) {
    if (!is16() && !is09()) {
        // C01: all truncation points
        std::vector<std::pair<Bytes, bool>> docs = trunc_docs();
        Stats &st = stats();
        unsigned idx = 0;
        for (unsigned di = 0; di < docs.size(); di++) {
            size_t n = docs[di].first.size();
            for (size_t cut = 0; cut <= n; cut++) {
                if (n > 2000 && cut > 40 && cut + 40 < n && (cut % 257) != 0) continue;  // the 33000-byte name: both ends densely, the middle sampled
                for (unsigned variant = 0; variant < 2; variant++)
                    for (unsigned script = 0; script < 9; script++) {
                        if ((int)(idx++ % (unsigned)nshards) != shard) continue;
                        uint8_t cs[8] = {0xAC, (uint8_t)di, (uint8_t)variant, (uint8_t)script};
                        uint32_t c32 = (uint32_t)cut;
                        memcpy(cs + 4, &c32, 4);
                        vh_save_fail_case(cs, 8);  // saved before the run: a sanitizer abort leaves the case behind
                        trunc_case(di, cut, variant, script);
                        st.evaluations++;
                        st.count("enum_truncation_cases");
                        if ((idx & 7) == 0) st.nontrivial(mix(mix(0xACAC, di * 100000 + cut), variant * 16 + script));
                    }
            }
        }
        if (const char *path = getenv("VH_FAIL")) remove(path);
        (void)tier;
        return 0;
    }
    if (!is16()) return 0;
    bool thorough = tier && !strcmp(tier, "thorough");
    std::vector<size_t> Ls;
    auto range = [&](size_t a, size_t b) { for (size_t l = a; l <= b; l++) Ls.push_back(l); };
    if (thorough) { range(0, 2000); range(32000, 33600); range(65000, 66200); range(69990, 69999); }
    else { range(0, 300); range(32700, 32800); range(65500, 65600); Ls.push_back(69999); }
    signal(SIGALRM, on_sweep_alarm);
    Stats &st = stats();
    for (size_t i = 0; i < Ls.size(); i++) {
        if ((int)(i % (size_t)nshards) != shard) continue;
        for (unsigned v = 0; v < 4; v++) {
            uint8_t cs[6] = {0xA9, (uint8_t)v};
            uint32_t l32 = (uint32_t)Ls[i];
            memcpy(cs + 2, &l32, 4);
            vh_save_fail_case(cs, 6);  // written before the case runs: a hang (alarm -> exit 77) still leaves the case behind
            alarm(10);
            try {
                c16_sweep_case(Ls[i], v);
            } catch (const Failure &) {
                alarm(0);
                throw;
            }
            alarm(0);
            st.evaluations++;
            st.count("enum_name_sweep_cases");
            st.nontrivial(mix(0xA9A9, Ls[i] * 2 + v));
        }
    }
    if (const char *path = getenv("VH_FAIL")) remove(path);
    return 0;
}

#include "glue.hpp"
