// C01 / C09 (parser half) / C16: arbitrary byte strings x arbitrary call
// sequences over the whole public parser API, return values ignored by the
// script.  Every caller-supplied object lives in an exactly-sized heap block.
//   VH_PROP=C01: spans inside the buffer, input never modified (ASan/UBSan watch the rest)
//   VH_PROP=C09: once an error code is set everything is neutral until reset/init/verify
//   VH_PROP=C16: token callbacks per call <= bytes advanced + small constant; cursor never moves back
#include <signal.h>

#include "apiops.hpp"

static DocOpts opts(bool big) {
    DocOpts o;
    o.cfg.max_nodes = 30;
    o.cfg.max_depth = 6;
    o.cfg.max_fan = 5;
    o.cfg.big = big;
    return o;
}

static const char *kName = "apiseq";

struct Decoded {
    DocCase c;
    Bytes prefill;
    uint8_t state_fill;
    bool first_arr;
    bool smart;
};

static Decoded decode(Src &s) {
    Decoded d;
    uint8_t h = s.u8();
    bool big = (h & 0x70) == 0x70;
    d.state_fill = (h & 1) ? s.u8() : 0;
    unsigned npf = (h & 2) ? 1 + s.u8() % 16 : 0;
    for (unsigned i = 0; i < npf; i++) d.prefill.push_back(s.u8());
    if ((h & 12) == 12) d.prefill = Bytes{0xAA};
    d.c = decode_doc(s, opts(big));
    d.first_arr = d.c.array_root;
    d.smart = (h & 0x80) != 0;
    return d;
}

static void execute(Run &r, Decoded &d, Src &s) {
    r.doc = d.c.doc;
    r.pb.make(d.c.depth, d.prefill.data(), d.prefill.size(), d.state_fill);
    r.pb.set_input(d.c.doc);
    r.wbuf.alloc(2 * d.c.doc.size() + 16);
    binson_writer_init(&r.w, r.wbuf.p, r.wbuf.n);
    // the script always starts with an init (the only defined way to start)
    r.call(d.first_arr ? A_INIT_ARR : A_INIT_OBJ, s);
    for (unsigned i = 0; i < 64 && !s.dry(); i++) {
        uint8_t b = s.u8();
        r.call(d.smart ? pick_smart(b, r) : pick(b), s);
    }
    if (!r.pb.input_intact()) r.fail("any", "input-modified", "the input buffer was modified");
}

static void c16_sweep_case(size_t L, unsigned variant);

static void run_case(Src &s) {
    if (s.left() >= 6 && s.p[s.i] == 0xA9 && is16()) {  // literal sweep case written by the enumerator
        uint32_t l32;
        memcpy(&l32, s.p + s.i + 2, 4);
        c16_sweep_case(l32 % 70000, s.p[s.i + 1]);
        return;
    }
    Decoded d = decode(s);
    size_t at = s.i;
    Run r;
    try {
        execute(r, d, s);
    } catch (const Failure &) {
        Run r2;
        r2.keep_log = true;
        Src s2(s.p, s.n);
        s2.i = at;
        execute(r2, d, s2);
        throw;
    }
    Stats &st = stats();
    bool nt;
    if (is09()) nt = r.calls_after_latch >= 3 && r.adv_after_latch >= 1 && r.get_after_latch >= 1;
    else if (is16()) nt = r.multi_token_calls >= 1;
    else nt = r.adv_ok >= 1 || r.rejected_init_then_call;
    if (nt) st.nontrivial(mix(fnv(d.c.doc.data(), d.c.doc.size()), r.ophash));
    if (r.rejected_init_then_call) st.label("rejected-init-then-call");
    if (r.adv_ok) st.label("advancing-call-succeeded");
    if (r.spans) st.label("span-returned");
    if (r.calls_after_latch) st.label("calls-after-error");
    if (r.latch_err) st.label(std::string("error:") + err_name(r.latch_err));
    if (!d.prefill.empty()) st.label("struct-prefilled");
    st.label(d.smart ? "script:protocol-aware" : "script:arbitrary");
    if (d.c.doc.size() > 4096) st.label("doc>4KiB");
    st.label(fmt("mode:%u", d.c.mode));
    const char *cl = nt ? "non-trivial" : "trivial";
    if (st.want_sample(cl, 2)) {
        Run r2;
        r2.keep_log = true;
        Src s2(s.p, s.n);
        s2.i = at;
        execute(r2, d, s2);
        st.sample(cl, r2.ctx().substr(0, 900));
    }
}

static void describe_case(Src &s, FILE *out) {
    if (s.left() >= 6 && s.p[s.i] == 0xA9 && is16()) {
        uint32_t l32;
        memcpy(&l32, s.p + s.i + 2, 4);
        fprintf(out, "  C16 name-sweep case: name length %u, variant %u\n", l32, s.p[s.i + 1]);
        return;
    }
    Decoded d = decode(s);
    fprintf(out, "%s\n  struct prefill: %s  state fill: %02x\n", describe_doc(d.c).c_str(), d.prefill.empty() ? "zero" : ref::hex(d.prefill).c_str(), d.state_fill);
    Run r;
    r.keep_log = true;
    r.echo = out;
    try {
        execute(r, d, s);
    } catch (const Failure &f) {
        fprintf(out, "  FAILS: %s\n", f.sig.c_str());
    }
    fprintf(out, "  ops: ");
    for (auto &l : r.log) fprintf(out, "%s; ", l.c_str());
    fprintf(out, "\n");
}

#define VH_HAS_WRAP
static size_t wrap_raw(const uint8_t *doc, size_t n, unsigned variant, uint8_t *out, size_t cap) {
    if (cap < 1) return 0;
    out[0] = 0;  // header: zero prefill, small docs
    size_t k = wrap_raw_doc(doc, n, variant, out + 1, cap - 1);
    return k ? k + 1 : 0;
}


// ---------------------------------------------------------------------------
// C16 deterministic sweep: for every swept field-name length L the document {"a":[true x 60], K(L): 1, K(L)+"x": 2};
// the cursor stops on the un-entered array, then lookups that overshoot onto K, hit K, and miss after it are each
// measured (token callbacks vs. bytes advanced); a per-document alarm turns a hang into exit code 77.
static void c16_sweep_case(size_t L, unsigned variant) {
    Value root;
    root.k = ref::K_OBJ;
    Value arr; arr.k = ref::K_ARR;
    for (int i = 0; i < 60; i++) { Value t; t.k = ref::K_BOOL; t.b = true; arr.c.push_back(t); }
    Value one; one.k = ref::K_INT; one.i = 1;
    Bytes K(L, (uint8_t)'k'), Kx = K;
    Kx.push_back('x');
    auto field = [&](Bytes nm, Value v) { v.has_name = true; v.name = nm; root.c.push_back(v); };
    field(Bytes{'a'}, arr);
    if (L) field(K, variant & 1 ? arr : one);
    field(Kx, one);
    std::sort(root.c.begin(), root.c.end(), [](const Value &a, const Value &b) { return ref::cmp_bytes(a.name, b.name) < 0; });
    for (size_t i = 0; i + 1 < root.c.size(); i++) if (root.c[i].name == root.c[i + 1].name) return;
    Bytes doc = ref::encode(root);
    PBox pb;
    pb.make(2, nullptr, 0, 0);
    pb.set_input(doc);
    binson_parser *p = pb.p;
    auto fail = [&](const char *what, uint64_t tokens, uint64_t adv) {
        throw Failure{std::string("C16/name-sweep/") + what, fmt("name length %zu variant %u: %s (%" PRIu64 " token callbacks, %" PRIu64 " bytes advanced)", L, variant, what, tokens, adv)};
    };
    if (!pb.init(false)) fail("init", 0, 0);
    Count cnt{0};
    auto measured = [&](const char *what, uint64_t slack, std::function<bool()> call) {
        cnt.tokens = 0;
        p->cb = count_cb;
        p->cb_context = &cnt;
        size_t before = p->buffer_used;
        bool r = call();
        p->cb = NULL;
        p->cb_context = NULL;
        size_t after = p->buffer_used;
        if (after < before) fail("cursor-moved-back", cnt.tokens, 0);
        if (cnt.tokens > (after - before) + slack) fail(what, cnt.tokens, after - before);
        if (p->error_flags != BINSON_ERROR_NONE) fail("error", cnt.tokens, after - before);
        return r;
    };
    Bytes b{'b'};
    measured("go_into_object/tokens>bytes", 1, [&] { return binson_parser_go_into_object(p); });
    measured("next/tokens>bytes", 1, [&] { return binson_parser_next(p); });   // stops on the un-entered array "a"
    for (int i = 0; i < 4; i++)  // "b" sorts between "a" and K: the first lookup skips the array and overshoots onto K, the others re-read only K
        if (measured("field(miss)/tokens>bytes", 2, [&] { return binson_parser_field_with_length(p, (const char *)b.data(), b.size()); })) fail("absent-name-found", 0, 0);
    if (L) {
        if (!measured("field(hit)/tokens>bytes", 2, [&] { return binson_parser_field_with_length(p, (const char *)K.data(), K.size()); })) fail("present-name-not-found", 0, 0);
        Bytes after = K;
        after.push_back(0);
        for (int i = 0; i < 3; i++)
            if (measured("field(miss-after)/tokens>bytes", 2, [&] { return binson_parser_field_with_length(p, (const char *)after.data(), after.size()); })) fail("absent-name-found", 0, 0);
    }
    if (!measured("field(hit)/tokens>bytes", 2, [&] { return binson_parser_field_with_length(p, (const char *)Kx.data(), Kx.size()); })) fail("present-name-not-found", 0, 0);
    measured("leave_object/tokens>bytes", 1, [&] { return binson_parser_leave_object(p); });
    cnt.tokens = 0;
    p->cb = count_cb;
    p->cb_context = &cnt;
    bool v = binson_parser_verify(p);
    p->cb = NULL;
    if (!v) fail("verify-rejects", 0, 0);
    if (cnt.tokens > doc.size() + 1) fail("verify/tokens>len", cnt.tokens, doc.size());
}

static void on_sweep_alarm(int) { _exit(77); }

#define VH_HAS_ENUM
static int enumerate(int shard, int nshards, const char *tier) {
    if (!is16()) return 0;
    bool thorough = tier && !strcmp(tier, "thorough");
    std::vector<size_t> Ls;
    auto range = [&](size_t a, size_t b) { for (size_t l = a; l <= b; l++) Ls.push_back(l); };
    if (thorough) { range(0, 2000); range(32000, 33600); range(65000, 66200); range(69990, 69999); }
    else { range(0, 300); range(32700, 32800); range(65500, 65600); Ls.push_back(69999); }
    signal(SIGALRM, on_sweep_alarm);
    Stats &st = stats();
    for (size_t i = 0; i < Ls.size(); i++) {
        if ((int)(i % (size_t)nshards) != shard) continue;
        for (unsigned v = 0; v < 2; v++) {
            uint8_t cs[6] = {0xA9, (uint8_t)v};
            uint32_t l32 = (uint32_t)Ls[i];
            memcpy(cs + 2, &l32, 4);
            vh_save_fail_case(cs, 6);  // written before the case runs: a hang (alarm -> exit 77) still leaves the case behind
            alarm(10);
            try {
                c16_sweep_case(Ls[i], v);
            } catch (const Failure &) {
                alarm(0);
                throw;
            }
            alarm(0);
            st.evaluations++;
            st.count("enum_name_sweep_cases");
            st.nontrivial(mix(0xA9A9, Ls[i] * 2 + v));
        }
    }
    if (const char *path = getenv("VH_FAIL")) remove(path);
    return 0;
}

#include "glue.hpp"
