// Full traversal of a valid document with next / go_into_* / leave_*, entering
// everything, comparing every reported element with the decoded tree (C03; also
// used as the "decodes to exactly the values written" half of C05).
#pragma once
#include "pbox.hpp"

namespace vh {

struct WalkStats {
    uint64_t elements = 0;
    bool wide_int = false, long_len = false;
    unsigned max_nest = 0;
};

struct Walker {
    PBox &pb;
    const char *prop;
    std::string what;
    WalkStats ws;
    bool thorough_getters = true;
    Walker(PBox &p, const char *pr, const std::string &w) : pb(p), prop(pr), what(w) {}

    [[noreturn]] void fail(const std::string &sig, const std::string &detail, const ref::Value *v) {
        std::string at = v ? fmt(" at element [%zu,%zu) kind=%s", v->tb, v->te, ref::kind_name(v->k)) : "";
        throw Failure{std::string(prop) + "/" + sig, detail + at + "; " + what};
    }

    void element(const ref::Value &v, bool in_obj) {
        binson_parser *p = pb.p;
        ws.elements++;
        binson_type t = binson_parser_get_type(p);
        if (t != to_btype(v.k)) fail("walk/type", fmt("get_type=%d expected %s", (int)t, ref::kind_name(v.k)), &v);
        if (in_obj) {
            bbuf *n = binson_parser_get_name(p);
            if (!n) fail("walk/name=NULL", "get_name returned NULL", &v);
            if (n->bsize != v.name.size() || (n->bsize && n->bptr != pb.input.p + v.npb))
                fail("walk/name-span", fmt("name span off=%td len=%zu expected off=%zu len=%zu", n->bptr - pb.input.p, n->bsize, v.npb, v.name.size()), &v);
            if (v.name.size() >= 128) ws.long_len = true;
        }
        int64_t gi = binson_parser_get_integer(p);
        bool gb = binson_parser_get_boolean(p);
        double gd = binson_parser_get_double(p);
        uint64_t gdb;
        memcpy(&gdb, &gd, 8);
        bbuf *gs = binson_parser_get_string_bbuf(p);
        bbuf *gy = binson_parser_get_bytes_bbuf(p);
        switch (v.k) {
        case ref::K_INT:
            if (gi != v.i) fail("walk/int-value", fmt("get_integer=%" PRId64 " expected %" PRId64, gi, v.i), &v);
            if (v.i < -128 || v.i > 127) ws.wide_int = true;
            break;
        case ref::K_BOOL: if (gb != v.b) fail("walk/bool-value", "get_boolean mismatch", &v); break;
        case ref::K_DBL: if (gdb != v.d) fail("walk/double-bits", fmt("bits %016" PRIx64 " expected %016" PRIx64, gdb, v.d), &v); break;
        case ref::K_STR:
            if (!gs) fail("walk/string=NULL", "get_string_bbuf NULL on a string", &v);
            if ((gs->bsize && gs->bptr != pb.input.p + v.pb) || gs->bsize != v.s.size())
                fail("walk/string-span", fmt("string span off=%td len=%zu expected off=%zu len=%zu", gs->bptr - pb.input.p, gs->bsize, v.pb, v.s.size()), &v);
            if (v.s.size() >= 128) ws.long_len = true;
            break;
        case ref::K_BYT:
            if (!gy) fail("walk/bytes=NULL", "get_bytes_bbuf NULL on bytes", &v);
            if ((gy->bsize && gy->bptr != pb.input.p + v.pb) || gy->bsize != v.s.size())
                fail("walk/bytes-span", fmt("bytes span off=%td len=%zu expected off=%zu len=%zu", gy->bptr - pb.input.p, gy->bsize, v.pb, v.s.size()), &v);
            if (v.s.size() >= 128) ws.long_len = true;
            break;
        default: break;
        }
        if (v.k != ref::K_INT && gi != 0) fail("walk/neutral-int", "get_integer not 0 on another type", &v);
        if (v.k != ref::K_BOOL && gb) fail("walk/neutral-bool", "get_boolean not false on another type", &v);
        if (v.k != ref::K_DBL && gdb != 0) fail("walk/neutral-double", "get_double not +0.0 on another type", &v);
        if (v.k != ref::K_STR && gs) fail("walk/neutral-string", "get_string_bbuf not NULL on another type", &v);
        if (v.k != ref::K_BYT && gy) fail("walk/neutral-bytes", "get_bytes_bbuf not NULL on another type", &v);
        if (thorough_getters) string_equals(v);
        if (p->error_flags != BINSON_ERROR_NONE) fail(std::string("walk/error=") + err_name(p->error_flags), "error raised while reading a valid document", &v);
    }

    void string_equals(const ref::Value &v) {
        binson_parser *p = pb.p;
        if (v.k == ref::K_STR && v.s.size() <= 300) {
            bool nulfree = true;
            for (uint8_t c : v.s) if (!c) nulfree = false;
            // exact (C string): only expressible for NUL-free content
            {
                Block e(v.s.size() + 1);
                size_t cut = 0;
                while (cut < v.s.size() && v.s[cut]) cut++;
                if (cut) memcpy(e.p, v.s.data(), cut);
                e.p[cut] = 0;
                bool r = binson_parser_string_equals(p, (const char *)e.p);
                if (r != nulfree) fail("walk/string_equals/exact", fmt("string_equals(exact%s)=%d", nulfree ? "" : " up to the first NUL", (int)r), &v);
            }
            if (nulfree) {
                Block lng(v.s.size() + 2);
                if (!v.s.empty()) memcpy(lng.p, v.s.data(), v.s.size());
                lng.p[v.s.size()] = 'x';
                lng.p[v.s.size() + 1] = 0;
                if (binson_parser_string_equals(p, (const char *)lng.p)) fail("walk/string_equals/longer", "true for the string plus one byte", &v);
                if (!v.s.empty()) {
                    Block sh(v.s.size());
                    memcpy(sh.p, v.s.data(), v.s.size() - 1);
                    sh.p[v.s.size() - 1] = 0;
                    if (binson_parser_string_equals(p, (const char *)sh.p)) fail("walk/string_equals/shorter", "true for the string minus one byte", &v);
                    Block df(v.s.size() + 1);
                    memcpy(df.p, v.s.data(), v.s.size());
                    df.p[v.s.size() - 1] = (uint8_t)(df.p[v.s.size() - 1] == 'q' ? 'r' : 'q');
                    df.p[v.s.size()] = 0;
                    if (binson_parser_string_equals(p, (const char *)df.p)) fail("walk/string_equals/differs", "true for a string differing in the last byte", &v);
                }
            }
        } else if (v.k != ref::K_STR) {
            Block e(1);
            e.p[0] = 0;
            if (binson_parser_string_equals(p, (const char *)e.p)) fail("walk/string_equals/non-string", "true (\"\") on a non-string value", &v);
            Block a(2);
            a.p[0] = 'a'; a.p[1] = 0;
            if (binson_parser_string_equals(p, (const char *)a.p)) fail("walk/string_equals/non-string", "true (\"a\") on a non-string value", &v);
        }
    }

    void container(const ref::Value &c, unsigned nest) {
        binson_parser *p = pb.p;
        if (nest > ws.max_nest) ws.max_nest = nest;
        bool obj = c.k == ref::K_OBJ;
        size_t d0 = binson_parser_get_depth(p);
        if (!(obj ? binson_parser_go_into_object(p) : binson_parser_go_into_array(p))) fail(obj ? "walk/go_into_object" : "walk/go_into_array", "enter failed", &c);
        if (binson_parser_get_depth(p) != d0 + (obj ? 1 : 0)) fail("walk/depth", "depth after enter", &c);
        for (auto &ch : c.c) {
            if (!binson_parser_next(p)) fail("walk/next=false", fmt("next returned false before element (error %s)", err_name(p->error_flags)), &ch);
            element(ch, obj);
            if (ch.is_container()) container(ch, nest + 1);
        }
        if (binson_parser_next(p)) fail("walk/next=true-at-end", "next returned true after the last element", &c);
        if (binson_parser_next(p)) fail("walk/next=true-at-end", "second next at the end returned true", &c);
        if (p->error_flags != BINSON_ERROR_NONE) fail(std::string("walk/error=") + err_name(p->error_flags), "error at the end of a container", &c);
        if (!(obj ? binson_parser_leave_object(p) : binson_parser_leave_array(p))) fail(obj ? "walk/leave_object" : "walk/leave_array", "leave failed", &c);
        if (binson_parser_get_depth(p) != d0) fail("walk/depth", "depth after leave", &c);
    }

    void run(const ref::Value &root) {
        container(root, 1);
        if (pb.p->error_flags != BINSON_ERROR_NONE) fail("walk/error-at-end", "error flag set after the traversal", nullptr);
        if (!pb.input_intact()) fail("walk/input-modified", "input modified", nullptr);
    }
};

}  // namespace vh
