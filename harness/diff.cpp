// C18: scenario digests.  One scenario = one byte string decoded into calls
// covering the public parser, writer and C++ class API; the digest folds in
// every observable result (return values, error codes, decoded values, spans
// as offsets, bytes written, counters, rendered text, captured stdout,
// exception / no exception).  The driver builds the library in every compiler
// configuration, replays the same scenario corpus in each and compares digests.
#include <exception>
#include <sys/mman.h>

#include "apiops.hpp"
#include "binson.hpp"
#include "wops.hpp"

static DocOpts dopts() {
    DocOpts o;
    o.cfg.max_nodes = 30;
    o.cfg.max_depth = 6;
    o.cfg.max_fan = 5;
    return o;
}

static const char *kName = "diff";

static bool doc_has_special(const Bytes &doc) {
    for (uint8_t b : doc) if (b >= 0x80 || b == 0x46) return true;
    return false;
}

// parser API script (same alphabet as C01) - includes lookups, getters, print, to_string
static uint64_t scen_parser(Src &s, bool *nt, std::string *txt) {
    DocCase c = decode_doc(s, dopts());
    Run r;
    r.record = true;
    r.keep_log = txt != nullptr;
    r.doc = c.doc;
    r.pb.make(c.depth, nullptr, 0, 0);
    r.pb.set_input(c.doc);
    r.wbuf.alloc(2 * c.doc.size() + 16);
    memset(r.wbuf.p, 0, r.wbuf.n);
    binson_writer_init(&r.w, r.wbuf.p, r.wbuf.n);
    bool smart = s.flag();
    r.call(c.array_root ? A_INIT_ARR : A_INIT_OBJ, s);
    for (unsigned i = 0; i < 48 && !s.dry(); i++) {
        uint8_t b = s.u8();
        unsigned op = smart ? pick_smart(b, r) : pick(b);
        if (op == A_FIELD_NULL) op = A_NEXT;
        r.call(op, s);
    }
    uint64_t h = 0x1111;
    for (uint64_t t : r.trace) h = mix(h, t);
    h = mix(h, fnv(r.wbuf.p, binson_writer_get_counter(&r.w) < r.wbuf.n ? binson_writer_get_counter(&r.w) : r.wbuf.n));
    if (txt) for (auto &l : r.trace_text) { *txt += l; *txt += "\n"; }
    *nt = doc_has_special(c.doc);
    return h;
}

static uint64_t scen_writer(Src &s, bool *nt, std::string *txt) {
    uint8_t h0 = s.u8();
    std::vector<WOp> ops;
    if (h0 & 1) ops = gen_arbitrary_ops(s, false);
    else {
        DocOpts o = dopts();
        o.allow_invalid = false;
        o.allow_raw = false;
        DocCase c = decode_doc(s, o);
        ref::flatten(c.tree, ops);
    }
    Payloads pl(ops);
    Bytes enc = ref::encode_ops(ops);
    size_t cap = (h0 & 2) ? s.u16() % (enc.size() + 2) : enc.size();
    Block dst(cap);
    dst.fill(0x21);
    binson_writer w;
    binson_writer_init(&w, dst.p, dst.n);
    uint64_t h = 0x2222;
    for (size_t i = 0; i < ops.size(); i++) {
        bool r = do_write(&w, ops[i], *pl.b[i]);
        h = mix(mix(h, r), mix(binson_writer_get_counter(&w), (uint64_t)w.error_flags));
        if (txt) *txt += fmt("%s -> %d counter %zu err %d\n", op_text(ops[i]).c_str(), (int)r, binson_writer_get_counter(&w), (int)w.error_flags);
        if (ops[i].k == ref::W_INT && (ops[i].i < -128)) *nt = true;
        if (ops[i].k == ref::W_DBL) *nt = true;
    }
    h = mix(h, fnv(dst.p, dst.n));
    if (w.error_flags == BINSON_ERROR_NONE) {
        bool v = binson_writer_verify(&w);
        h = mix(h, v);
        if (txt) *txt += fmt("writer_verify -> %d\n", (int)v);
    }
    bool r1 = binson_writer_reset(&w);
    h = mix(mix(h, r1), mix(binson_writer_get_counter(&w), (uint64_t)w.error_flags));
    if (txt) *txt += "buffer " + ref::hex(dst.p, dst.n, 80) + "\n";
    return h;
}

static uint64_t scen_cpp(Src &s, bool *nt, std::string *txt) {
    DocOpts o = dopts();
    o.force_object_root = true;
    DocCase c = decode_doc(s, o);
    uint64_t h = 0x3333;
    for (int ov = 0; ov < 3; ov++) {
        Binson b;
        int outcome = 0;
        try {
            if (ov == 0) { std::vector<uint8_t> v(c.doc.begin(), c.doc.end()); b.deserialize(v); }
            else if (ov == 1) { Block in(c.doc); b.deserialize(in.p, in.n); }
            else {
                PBox pb;
                pb.make(10, nullptr, 0, 0);
                pb.set_input(c.doc);
                (void)binson_parser_init(pb.p, pb.input.p, pb.input.n);
                b.deserialize(pb.p);
            }
        } catch (const std::exception &) { outcome = 1; } catch (...) { outcome = 2; }
        h = mix(h, (uint64_t)outcome);
        if (txt) *txt += fmt("deserialize overload %d -> %s\n", ov, outcome == 0 ? "returned" : outcome == 1 ? "std::exception" : "other exception");
        if (outcome == 0) {
            std::vector<uint8_t> out = b.serialize();
            h = mix(h, fnv(out.data(), out.size(), out.size()));
            if (txt) *txt += "  serialize: " + ref::hex(out, 80) + "\n";
#ifdef BINSON_PARSER_WITH_PRINT
            std::string t = b.toStr();
            h = mix(h, fnv(t.data(), t.size()));
            if (txt) *txt += "  toStr: " + t.substr(0, 200) + "\n";
#endif
            // key order seen through the iterator
            for (auto it = b.begin(); it != b.end(); ++it) h = mix(h, fnv(it->first.data(), it->first.size()));
            if (ov == 0) {
                // put() in reverse order must serialize identically
                Binson b2;
                std::vector<std::pair<std::string, BinsonValue>> items(b.begin(), b.end());
                for (size_t i = items.size(); i-- > 0;) b2.put(items[i].first, items[i].second);
                std::vector<uint8_t> out2 = b2.serialize();
                h = mix(h, fnv(out2.data(), out2.size()));
            }
        }
    }
    *nt = doc_has_special(c.doc);
    return h;
}

// text of valid documents: to_string at several capacities and print's stdout
static uint64_t scen_text(Src &s, bool *nt, std::string *txt) {
    DocOpts o = dopts();
    DocCase c = decode_doc(s, o);
    PBox pb;
    pb.make(c.depth, nullptr, 0, 0);
    pb.set_input(c.doc);
    uint64_t h = 0x4444;
    bool ok = pb.init(c.array_root);
    h = mix(h, ok);
    if (!ok) return h;
    size_t sz = 0;
    bool r = binson_parser_to_string(pb.p, nullptr, &sz, false);
    h = mix(mix(h, r), sz);
    size_t caps[3] = {sz, sz / 2, (size_t)s.u16() % (sz + 8)};
    for (size_t cap : caps) {
        Block dst(cap);
        dst.fill(0);
        size_t z = cap;
        bool q = binson_parser_to_string(pb.p, (char *)dst.p, &z, true);
        h = mix(mix(h, q), z);
        if (q) h = mix(h, fnv(dst.p, z < dst.n ? z : dst.n));
        if (txt) *txt += fmt("to_string(cap %zu) -> %d size %zu %s\n", cap, (int)q, z, q ? std::string((const char *)dst.p, z < dst.n ? z : dst.n).substr(0, 200).c_str() : "");
    }
    // print
    {
        static int mfd = -1;
        if (mfd < 0) mfd = memfd_create("p", 0);
        fflush(stdout);
        if (ftruncate(mfd, 0) == 0) {
            lseek(mfd, 0, SEEK_SET);
            int saved = dup(1);
            dup2(mfd, 1);
            bool pr = binson_parser_print(pb.p);
            fflush(stdout);
            dup2(saved, 1);
            close(saved);
            off_t n = lseek(mfd, 0, SEEK_CUR);
            std::string out((size_t)n, '\0');
            if (n > 0 && pread(mfd, &out[0], (size_t)n, 0) != n) out.clear();
            h = mix(mix(h, pr), fnv(out.data(), out.size()));
            if (txt) *txt += fmt("print -> %d '%s'\n", (int)pr, out.substr(0, 200).c_str());
        }
    }
    h = mix(h, (uint64_t)pb.p->error_flags);
    *nt = doc_has_special(c.doc);
    return h;
}

static uint64_t digest(Src &s, bool *nt, std::string *txt) {
    uint8_t k = s.u8() % 8;
    *nt = false;
    if (k <= 3) return scen_parser(s, nt, txt);
    if (k == 4) return scen_writer(s, nt, txt);
    if (k == 5) return scen_cpp(s, nt, txt);
    if (k == 6) return scen_text(s, nt, txt);
    return scen_parser(s, nt, txt);
}

#define VH_HAS_DIGEST
static uint64_t digest_case(const uint8_t *data, size_t n, int *nt) {
    Src s(data, n);
    bool b = false;
    uint64_t h = digest(s, &b, nullptr);
    *nt = b;
    return h;
}

static void run_case(Src &s) {
    bool nt = false;
    uint64_t h = digest(s, &nt, nullptr);
    if (nt) stats().nontrivial(fnv(s.p, s.n));
    (void)h;
}

static void describe_case(Src &s, FILE *out) {
    bool nt = false;
    std::string txt;
    uint64_t h = digest(s, &nt, &txt);
    fprintf(out, "%s  digest %016" PRIx64 "\n", txt.c_str(), h);
}

#include "glue.hpp"
