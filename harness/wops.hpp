// Writer-call sequences: text form, payload blocks, dispatch to the real writer, arbitrary-sequence generator.
#pragma once
#include "gen.hpp"
#include "pbox.hpp"

using namespace vh;
using ref::WOp;

static const char *kW[] = {"object_begin", "object_end", "array_begin", "array_end", "boolean", "integer", "double", "string_with_len", "name_with_len", "bytes", "raw", "string", "name", "parser_to_writer"};

static std::string op_text(const WOp &o) {
    switch (o.k) {
    case ref::W_BOOL: return fmt("boolean(%d)", (int)o.b);
    case ref::W_INT: return fmt("integer(%" PRId64 ")", o.i);
    case ref::W_DBL: return fmt("double(bits %016" PRIx64 ")", o.d);
    case ref::W_STR: case ref::W_NAME: case ref::W_BYTES: case ref::W_RAW: case ref::W_STR_C: case ref::W_NAME_C: case ref::W_TO_WRITER:
        return fmt("%s(len %zu: %s)", kW[o.k], o.s.size(), ref::hex(o.s, 8).c_str());
    default: return kW[o.k];
    }
}
static std::string ops_text(const std::vector<WOp> &ops, size_t lim = 40) {
    std::string o;
    for (size_t i = 0; i < ops.size() && i < lim; i++) { o += op_text(ops[i]); o += "; "; }
    if (ops.size() > lim) o += fmt("...(%zu ops)", ops.size());
    return o;
}

// payload blocks: each op's payload lives in its own exactly-sized block (C forms: + terminator)
struct Payloads {
    std::vector<Block *> b;
    explicit Payloads(const std::vector<WOp> &ops) {
        for (auto &o : ops) {
            bool c = o.k == ref::W_STR_C || o.k == ref::W_NAME_C;
            Block *x = new Block(o.s.size() + (c ? 1 : 0));
            if (!o.s.empty()) memcpy(x->p, o.s.data(), o.s.size());
            if (c) x->p[o.s.size()] = 0;
            b.push_back(x);
        }
    }
    ~Payloads() { for (auto *x : b) delete x; }
};

static bool do_write(binson_writer *w, const WOp &o, const Block &pl) {
    switch (o.k) {
    case ref::W_OBJ_B: return binson_write_object_begin(w);
    case ref::W_OBJ_E: return binson_write_object_end(w);
    case ref::W_ARR_B: return binson_write_array_begin(w);
    case ref::W_ARR_E: return binson_write_array_end(w);
    case ref::W_BOOL: return binson_write_boolean(w, o.b);
    case ref::W_INT: return binson_write_integer(w, o.i);
    case ref::W_DBL: { double d; memcpy(&d, &o.d, 8); return binson_write_double(w, d); }
    case ref::W_STR: return binson_write_string_with_len(w, (const char *)pl.p, o.s.size());
    case ref::W_NAME: return binson_write_name_with_len(w, (const char *)pl.p, o.s.size());
    case ref::W_BYTES: return binson_write_bytes(w, pl.p, o.s.size());
    case ref::W_RAW: return binson_write_raw(w, pl.p, o.s.size());
    case ref::W_STR_C: return binson_write_string(w, (const char *)pl.p);
    case ref::W_TO_WRITER: {
        // a parser over [ <container> ], positioned on the container
        Block doc(o.s.size() + 2);
        doc.p[0] = 0x42;
        memcpy(doc.p + 1, o.s.data(), o.s.size());
        doc.p[o.s.size() + 1] = 0x43;
        binson_state st[12];
        binson_parser p;
        p.state = st;
        p.max_depth = 12;
        if (!(binson_parser_init_array(&p, doc.p, doc.n) && binson_parser_go_into_array(&p) && binson_parser_next(&p))) return false;
        return binson_parser_to_writer(&p, w);
    }
    default: return binson_write_name(w, (const char *)pl.p);
    }
}

static std::vector<WOp> gen_arbitrary_ops(Src &s, bool big) {
    std::vector<WOp> ops;
    size_t last_len = (size_t)-1;
    unsigned n = 1 + s.u8() % 24;
    for (unsigned i = 0; i < n && !s.dry(); i++) {
        WOp o;
        unsigned k = s.u8() % 17;
        switch (k) {
        case 16: {  // a small valid container handed over with binson_parser_to_writer
            GenCfg g;
            g.max_nodes = 5;
            g.max_depth = 2;
            g.max_fan = 3;
            Value t = gen_tree(s, g, s.flag());
            o.k = ref::W_TO_WRITER;
            o.s = ref::encode(t);
            break;
        }
        case 0: o.k = ref::W_OBJ_B; break;
        case 1: o.k = ref::W_OBJ_E; break;
        case 2: o.k = ref::W_ARR_B; break;
        case 3: o.k = ref::W_ARR_E; break;
        case 4: o.k = ref::W_BOOL; o.b = s.flag(); break;
        case 5: case 6: o.k = ref::W_INT; o.i = gen_int(s); break;
        case 7: o.k = ref::W_DBL; o.d = gen_double_bits(s); break;
        case 8: case 9: o.k = ref::W_STR; o.s = gen_payload(s, rel_len(s, big, last_len)); break;
        case 10: o.k = ref::W_NAME; o.s = gen_name(s, s.u8(), false); break;
        case 11: case 12: o.k = ref::W_BYTES; o.s = gen_payload(s, rel_len(s, big, last_len)); break;
        case 13: o.k = ref::W_RAW; o.s = gen_payload(s, s.u8() % 12); break;
        case 14: o.k = ref::W_STR_C; o.s = gen_payload(s, rel_len(s, big, last_len)); for (auto &c : o.s) if (!c) c = 'z'; break;
        default: o.k = ref::W_NAME_C; o.s = gen_name(s, s.u8(), big); for (auto &c : o.s) if (!c) c = 'z'; break;
        }
        ops.push_back(o);
    }
    return ops;
}

