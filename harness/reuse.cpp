// C12: nothing is carried over.  A parser object (struct + state array) that
// was used for anything before - another document, an abandoned traversal, an
// error, a rejected init, or that simply holds garbage - behaves after
// init / reset / successful verify exactly like a fresh zero-initialised one:
// the complete observable trace of the next use is compared.  Same for a writer
// after init or a reset that returned true.
#include "apiops.hpp"
#include "wops.hpp"

static DocOpts dopts() {
    DocOpts o;
    o.cfg.max_nodes = 24;
    o.cfg.max_depth = 6;
    o.cfg.max_fan = 5;
    return o;
}

static const char *kName = "reuse";

struct Decoded {
    bool writer_case;
    DocCase a, b;
    Bytes prefill;
    uint8_t state_fill;
    unsigned restart;  // 0 init (new document b), 1 reset (same buffer), 2 verify (same buffer)
    unsigned prev_len; // number of ops of the previous use
};

static Decoded decode(Src &s) {
    Decoded d;
    uint8_t h = s.u8();
    d.writer_case = (h & 7) == 7;
    d.state_fill = (h & 8) ? s.u8() : 0;
    unsigned npf = (h & 16) ? 1 + s.u8() % 16 : 0;
    for (unsigned i = 0; i < npf; i++) d.prefill.push_back(s.u8());
    d.restart = (h >> 5) % 3;
    d.prev_len = s.u8() % 24;
    if (!d.writer_case) {
        d.a = decode_doc(s, dopts());
        if (d.restart == 0) {
            d.b = decode_doc(s, dopts());
            d.b.depth = d.a.depth;  // one state array, one depth configuration
        } else d.b = d.a;
    }
    return d;
}

static void run_script(Run &r, Src &s, unsigned n, bool smart) {
    for (unsigned i = 0; i < n && !s.dry(); i++) {
        uint8_t b = s.u8();
        unsigned op = smart ? pick_smart(b, r) : pick(b);
        if (op == A_FIELD_NULL) op = A_NEXT;
        r.call(op, s);
    }
}

static void parser_case(Decoded &d, Src &s, bool keep_log, FILE *out) {
    Stats &st = stats();
    // ---- previous use on the object that will be reused
    Run used;
    used.keep_log = keep_log;
    used.doc = d.a.doc;
    used.pb.make(d.a.depth, d.prefill.data(), d.prefill.size(), d.state_fill);
    used.pb.set_input(d.a.doc);
    used.wbuf.alloc(2 * (d.a.doc.size() + d.b.doc.size()) + 16);
    binson_writer_init(&used.w, used.wbuf.p, used.wbuf.n);
    bool smart = s.flag();
    used.call(d.a.array_root ? A_INIT_ARR : A_INIT_OBJ, s);
    run_script(used, s, d.prev_len, smart);
    // counters that wrap: sometimes the object is reset very many times before it is reused (255..257, 65535..65537, 131072)
    {
        uint8_t ex = s.u8();
        unsigned k = 0;
        if (ex >= 0xfc) { static const unsigned kk[] = {65535, 65536, 65537, 131072}; k = kk[ex & 3]; }
        else if (ex >= 0xf4) k = 254 + (ex & 3);
        if (k && used.inited_ok) {
            for (unsigned i = 0; i < k; i++) binson_parser_reset(used.pb.p);
            stats().label(k > 1000 ? "prev:reset-65536-times-class" : "prev:reset-256-times-class");
        }
    }
    bool prev_err = used.pb.p->error_flags != BINSON_ERROR_NONE;
    bool prev_deep = used.inited_ok && binson_parser_get_depth(used.pb.p) > (d.a.array_root ? 1u : 0u);
    bool prev_rejected = !used.inited_ok;
    if (out) { fprintf(out, "  previous use: "); for (auto &l : used.log) fprintf(out, "%s; ", l.c_str()); fprintf(out, "\n"); }
    used.log.clear();
    used.last_string.clear();  // harness-side memory of strings read so far: both twins start the next use without any

    // ---- the fresh twin
    Run fresh;
    fresh.keep_log = keep_log;
    fresh.pb.make(d.a.depth, nullptr, 0, 0);
    fresh.wbuf.alloc(used.wbuf.n);
    binson_writer_init(&fresh.w, fresh.wbuf.p, fresh.wbuf.n);
    binson_writer_init(&used.w, used.wbuf.p, used.wbuf.n);

    // ---- restart both
    unsigned restart = d.restart;
    if (restart != 0 && prev_rejected) restart = 0;  // reset/verify after a rejected init give no clean start to compare
    // for reset/verify the "buffer contents" are whatever the reused parser currently points at (the previous
    // script may have re-initialised it on a prefix or with the other root kind): the fresh twin gets the same
    DocCase nb = d.b;
    if (restart != 0) {
        nb = d.a;
        nb.doc.assign(used.cur_buf, used.cur_buf + used.cur_len);
        nb.array_root = used.arr;
    }
    used.doc = nb.doc;
    fresh.doc = nb.doc;
    // for reset/verify the reused parser keeps the buffer it points at; the input block that later init calls of the
    // script use must nevertheless hold the same bytes as the twin's (it is not referenced by the parser if the
    // current buffer is a prefix block, so it can be replaced)
    if (restart == 0 || used.cur_buf != used.pb.input.p) used.pb.set_input(nb.doc);
    fresh.pb.set_input(nb.doc);
    used.record = fresh.record = true;
    bool arr = nb.array_root;
    size_t at = s.i;
    Src s1(s.p, s.n), s2(s.p, s.n);
    s1.i = s2.i = at;
    bool restart_ok = true;
    if (restart == 0) {
        used.call(arr ? A_INIT_ARR : A_INIT_OBJ, s1);
        fresh.call(arr ? A_INIT_ARR : A_INIT_OBJ, s2);
    } else {
        // reset / successful verify must leave the object exactly as a fresh init on the same bytes does:
        // the twin is only initialised; the restart call itself is not part of the compared trace
        used.record = fresh.record = false;
        fresh.call(arr ? A_INIT_ARR : A_INIT_OBJ, s2);
        used.call(restart == 1 ? A_RESET : A_VERIFY, s1);
        used.record = fresh.record = true;
        restart_ok = used.shadow_valid && used.inited_ok;  // reset returned true / verify returned true
        if (fresh.inited_ok != used.inited_ok) restart_ok = false;
    }
    bool clean = restart_ok && used.inited_ok && used.pb.p->error_flags == BINSON_ERROR_NONE && fresh.inited_ok && fresh.pb.p->error_flags == BINSON_ERROR_NONE;
    if (used.trace != fresh.trace) clean = true;  // differing already at the restart call: report below
    if (clean) {
        bool smart2 = s1.flag();
        s2.flag();
        run_script(used, s1, 64, smart2);
        run_script(fresh, s2, 64, smart2);
    }
    if (out) {
        fprintf(out, "  next use (reused object):\n");
        for (auto &l : used.trace_text) fprintf(out, "    %s\n", l.c_str());
        fprintf(out, "  next use (fresh object):\n");
        for (auto &l : fresh.trace_text) fprintf(out, "    %s\n", l.c_str());
    }
    if (used.trace != fresh.trace) {
        size_t i = 0;
        while (i < used.trace.size() && i < fresh.trace.size() && used.trace[i] == fresh.trace[i]) i++;
        std::string opn = i < used.log.size() ? used.log[i] : "?";
        std::string a = i < used.trace_text.size() ? used.trace_text[i] : "", b = i < fresh.trace_text.size() ? fresh.trace_text[i] : "";
        size_t par = opn.find('(');
        VH_FAIL(fmt("C12/parser/%s/after-%s%s", keep_log ? opn.substr(0, par).c_str() : "call", restart == 0 ? "init" : restart == 1 ? "reset" : "verify",
                    prev_err ? "/prev-error" : prev_rejected ? "/prev-rejected" : ""),
                "call %zu of the next use differs between the reused and a fresh parser:\n  reused: %s\n  fresh:  %s\n  next doc root=%s max_depth=%u: %s", i, a.c_str(), b.c_str(),
                arr ? "array" : "object", nb.depth, ref::hex(nb.doc, 160).c_str());
    }
    // verify twice gives the same verdict; a successful verify leaves the cursor at the start (a traversal right after equals a fresh one - covered by the trace)
    if (clean) {
        bool v1 = binson_parser_verify(used.pb.p), v2 = binson_parser_verify(used.pb.p);
        if (v1 != v2) VH_FAIL("C12/parser/verify-not-repeatable", "verify returned %d then %d on the same buffer", (int)v1, (int)v2);
        if (v1 && used.pb.p->error_flags != BINSON_ERROR_NONE) VH_FAIL("C12/parser/verify-true-with-error", "verify true but error set");
    }
    bool nt = clean && (prev_err || prev_deep || prev_rejected || !d.prefill.empty()) && used.trace.size() >= 4;
    if (nt) st.nontrivial(mix(mix(fnv(d.a.doc.data(), d.a.doc.size()), fnv(nb.doc.data(), nb.doc.size())), used.ophash));
    if (prev_err) st.label("prev:ended-in-error");
    if (prev_deep) st.label("prev:abandoned-inside-container");
    if (prev_rejected) st.label("prev:init-rejected");
    if (!d.prefill.empty()) st.label("prev:garbage-struct");
    st.label(restart == 0 ? "restart:init" : restart == 1 ? "restart:reset" : "restart:verify");
    if (!clean) st.label("restart-not-accepted(no comparison)");
    st.count("compared_calls", used.trace.size());
}

struct WRun {
    Block dst;
    binson_writer w;
    std::vector<uint64_t> trace;
    void start(size_t cap, uint8_t fill) { dst.alloc(cap); dst.fill(fill); }
    void seq(const std::vector<WOp> &ops, const Payloads &pl, bool rec) {
        for (size_t i = 0; i < ops.size(); i++) {
            bool r = do_write(&w, ops[i], *pl.b[i]);
            if (rec) trace.push_back(mix(mix(r, binson_writer_get_counter(&w)), (uint64_t)w.error_flags));
        }
    }
};

static void writer_case(Src &s) {
    Stats &st = stats();
    unsigned how = s.u8() % 5;  // 0 init, 1 reset, 2 init after NULL-arg error, 3 NULL-arg error as the very first call then reset, 4 ... then init
    unsigned capsel = s.u16();
    std::vector<WOp> a = gen_arbitrary_ops(s, false), b = gen_arbitrary_ops(s, false);
    Payloads pa(a), pb(b);
    Bytes ea = ref::encode_ops(a), eb = ref::encode_ops(b);
    size_t cap = 2 + capsel % (eb.size() + ea.size() + 8);
    WRun used, fresh;
    used.start(cap, 0x11);
    fresh.start(cap, 0x11);
    memset(&used.w, 0xEE, sizeof used.w);
    memset(&fresh.w, 0, sizeof fresh.w);
    binson_writer_init(&used.w, used.dst.p, used.dst.n);
    if (how >= 3) { if (capsel & 1) binson_write_string(&used.w, nullptr); else binson_write_raw(&used.w, nullptr, 2); }
    if (how < 3 || (capsel & 2)) used.seq(a, pa, false);
    if (how == 2) binson_write_string(&used.w, nullptr);
    bool prev_err = used.w.error_flags != BINSON_ERROR_NONE;
    bool ok;
    if (how == 1 || how == 3) ok = binson_writer_reset(&used.w);
    else ok = binson_writer_init(&used.w, used.dst.p, used.dst.n);
    binson_writer_init(&fresh.w, fresh.dst.p, fresh.dst.n);
    if (!ok) { st.label("w:restart-refused"); return; }
    if (binson_writer_get_counter(&used.w) != 0 || used.w.error_flags != BINSON_ERROR_NONE)
        VH_FAIL(fmt("C12/writer/not-clean-after-%s", (how == 1 || how == 3) ? "reset" : "init"), "counter %zu error %s right after a successful %s", binson_writer_get_counter(&used.w), err_name(used.w.error_flags), (how == 1 || how == 3) ? "reset" : "init");
    // the destination blocks differ in content (the used one holds the previous output): give both the same background
    memset(used.dst.p, 0x11, used.dst.n);
    used.seq(b, pb, true);
    fresh.seq(b, pb, true);
    if (used.trace != fresh.trace || memcmp(used.dst.p, fresh.dst.p, cap) != 0)
        VH_FAIL(fmt("C12/writer/differs-after-%s%s", how == 1 ? "reset" : "init", prev_err ? "/prev-error" : ""), "a reused writer behaves differently from a fresh one; next sequence: %s", ops_text(b).c_str());
    if (prev_err) { st.nontrivial(mix(fnv(ea.data(), ea.size()), fnv(eb.data(), eb.size(), cap))); st.label("w:prev-error"); }
    st.label((how == 1 || how == 3) ? "w:restart-reset" : "w:restart-init");
    if (how >= 3) st.label("w:prev-null-arg-first-call");
}

static void abandon_sweep_case(size_t T, unsigned structure, unsigned k, unsigned restart);

static void run_case(Src &s) {
    if (s.left() >= 8 && s.p[s.i] == 0xAA) {  // literal sweep case written by the enumerator
        uint32_t t32;
        memcpy(&t32, s.p + s.i + 4, 4);
        abandon_sweep_case(t32 % 70000 < 16 ? 16 : t32 % 70000, s.p[s.i + 1], s.p[s.i + 2], s.p[s.i + 3] == 1 ? 1 : 2);
        return;
    }
    Decoded d = decode(s);
    if (d.writer_case) { writer_case(s); return; }
    size_t at = s.i;
    try {
        parser_case(d, s, false, nullptr);
    } catch (const Failure &) {
        Src s2(s.p, s.n);
        s2.i = at;
        parser_case(d, s2, true, nullptr);
        throw;
    }
    Stats &st = stats();
    if (st.want_sample("pair", 3))
        st.sample("pair", fmt("prev root=%s doc=%s (%u ops) -> restart %u -> next doc=%s", d.a.array_root ? "array" : "object", ref::hex(d.a.doc, 40).c_str(), d.prev_len, d.restart,
                              ref::hex(d.b.doc, 40).c_str()));
}

static void describe_case(Src &s, FILE *out) {
    if (s.left() >= 8 && s.p[s.i] == 0xAA) {
        uint32_t t32;
        memcpy(&t32, s.p + s.i + 4, 4);
        fprintf(out, "  abandon-sweep case: structure at offset %u, variant %u, abandoned after %u steps, restart %s\n", t32, s.p[s.i + 1], s.p[s.i + 2], s.p[s.i + 3] == 1 ? "reset" : "verify");
        return;
    }
    Decoded d = decode(s);
    if (d.writer_case) { fprintf(out, "  writer reuse case\n"); return; }
    fprintf(out, "previous: %s\nnext: %s\n  restart=%u prefill=%s state_fill=%02x\n", describe_doc(d.a).c_str(), describe_doc(d.b).c_str(), d.restart,
            d.prefill.empty() ? "zero" : ref::hex(d.prefill).c_str(), d.state_fill);
    try { parser_case(d, s, true, out); } catch (const Failure &f) { fprintf(out, "  FAILS: %s\n", f.sig.c_str()); }
}


// ---------------------------------------------------------------------------
// Deterministic sweep "abandon anywhere around a power-of-two offset": documents whose nested structure starts at
// (or 0..7 bytes before) offset 2^8, 2^15, 2^16-1, 2^16, 2^16+1; an entering-everything traversal is abandoned after
// every possible number of steps; the object is restarted with reset or verify; the full traversal that follows
// must give the trace of a freshly initialised twin.
static void walk_all(binson_parser *p, bool arr, unsigned max_steps, std::vector<uint64_t> *trace) {
    std::vector<bool> st;
    unsigned steps = 0;
    auto ob = [&](uint64_t x) { if (trace) trace->push_back(x); };
    if (steps++ >= max_steps) return;
    bool r = arr ? binson_parser_go_into_array(p) : binson_parser_go_into_object(p);
    ob(r);
    if (!r) return;
    st.push_back(!arr);
    while (!st.empty() && steps < max_steps) {
        steps++;
        bool n = binson_parser_next(p);
        ob(mix(n, (uint64_t)p->error_flags));
        if (!n) {
            bool l = st.back() ? binson_parser_leave_object(p) : binson_parser_leave_array(p);
            ob(mix(l, binson_parser_get_depth(p)));
            if (!l) return;
            st.pop_back();
            continue;
        }
        binson_type t = binson_parser_get_type(p);
        ob((uint64_t)t);
        if (st.back()) { bbuf *nm = binson_parser_get_name(p); ob(nm ? nm->bsize : 999999); }
        ob((uint64_t)binson_parser_get_integer(p));
        if (t == BINSON_TYPE_OBJECT || t == BINSON_TYPE_ARRAY) {
            if (steps++ >= max_steps) return;
            bool e = t == BINSON_TYPE_OBJECT ? binson_parser_go_into_object(p) : binson_parser_go_into_array(p);
            ob(mix(e, binson_parser_get_depth(p)));
            if (!e) return;
            st.push_back(t == BINSON_TYPE_OBJECT);
        }
    }
}

static Bytes sweep_doc(size_t T, unsigned structure) {
    // nested part
    Value g; g.k = ref::K_INT; g.i = 3; g.has_name = true; g.name = Bytes{'g'};
    Value og; og.k = ref::K_OBJ; og.c.push_back(g);
    Value one; one.k = ref::K_INT; one.i = 1;
    Value f; f.k = ref::K_ARR; f.c.push_back(one); f.c.push_back(og); f.has_name = true; f.name = Bytes{'f'};
    Value e; e.k = ref::K_INT; e.i = 2; e.has_name = true; e.name = Bytes{'e'};
    Value d; d.k = ref::K_OBJ; d.c.push_back(e); d.c.push_back(f); d.has_name = true; d.name = Bytes{'d'};
    Value c1 = one; c1.has_name = true; c1.name = Bytes{'c'};
    Value b; b.k = ref::K_OBJ; b.c.push_back(c1); b.c.push_back(d);
    Value root;
    bool arr = structure & 1;
    root.k = arr ? ref::K_ARR : ref::K_OBJ;
    size_t head = 1 + (arr ? 0 : 2);
    size_t L = T - head - 2;
    if (L > 127) L = T - head - 3;
    if (L > 32767) L = T - head - 5;
    Value pad; pad.k = ref::K_STR; pad.s.assign(L, (uint8_t)'p'); pad.has_name = !arr;
    root.c.push_back(pad);
    if (arr) { Value w; w.k = ref::K_ARR; w.c.push_back(b); root.c.push_back(w); Value five = one; five.i = 5; root.c.push_back(five); }
    else { b.has_name = true; b.name = Bytes{'b'}; root.c.push_back(b); Value z = one; z.has_name = true; z.name = Bytes{'z'}; z.i = 3; root.c.push_back(z); }
    return ref::encode(root);
}

static void abandon_sweep_case(size_t T, unsigned structure, unsigned k, unsigned restart) {
    Bytes doc = sweep_doc(T, structure);
    bool arr = structure & 1;
    PBox used, fresh;
    used.make(6, nullptr, 0, 0);
    used.set_input(doc);
    fresh.make(6, nullptr, 0, 0);
    fresh.set_input(doc);
    if (!used.init(arr) || !fresh.init(arr)) VH_FAIL("harness/abandon-sweep-init", "init failed");
    walk_all(used.p, arr, k, nullptr);  // previous use, abandoned after k steps
    bool ok = restart == 1 ? binson_parser_reset(used.p) : binson_parser_verify(used.p);
    if (!ok) VH_FAIL(fmt("C12/abandon-sweep/%s-refused", restart == 1 ? "reset" : "verify"), "structure at offset %zu (variant %u), abandoned after %u steps: %s returned false on a valid document (error %s)", T, structure, k, restart == 1 ? "reset" : "verify", err_name(used.p->error_flags));
    std::vector<uint64_t> tu, tf;
    walk_all(used.p, arr, 100000, &tu);
    walk_all(fresh.p, arr, 100000, &tf);
    if (tu != tf) {
        size_t i = 0;
        while (i < tu.size() && i < tf.size() && tu[i] == tf[i]) i++;
        VH_FAIL(fmt("C12/abandon-sweep/differs-after-%s", restart == 1 ? "reset" : "verify"), "structure at offset %zu (variant %u), previous traversal abandoned after %u steps (cursor was mid-document), then %s: the following full traversal differs from a fresh parser's at observation %zu (error now %s)", T, structure, k, restart == 1 ? "reset" : "verify", i, err_name(used.p->error_flags));
    }
}

#define VH_HAS_ENUM
static int enumerate(int shard, int nshards, const char *tier) {
    bool thorough = tier && !strcmp(tier, "thorough");
    static const size_t targets[] = {256, 32768, 65535, 65536, 65537};
    Stats &st = stats();
    unsigned idx = 0;
    for (size_t t : targets)
        for (unsigned d = 0; d < (thorough ? 12u : 6u); d++)
            for (unsigned structure = 0; structure < 2; structure++)
                for (unsigned k = 0; k < 30; k++)
                    for (unsigned restart = 1; restart <= 2; restart++) {
                        if ((int)(idx++ % (unsigned)nshards) != shard) continue;
                        try {
                            abandon_sweep_case(t - d, structure, k, restart);
                        } catch (const Failure &) {
                            uint8_t cs[8] = {0xAA, (uint8_t)structure, (uint8_t)k, (uint8_t)restart};
                            uint32_t t32 = (uint32_t)(t - d);
                            memcpy(cs + 4, &t32, 4);
                            vh_save_fail_case(cs, 8);
                            throw;
                        }
                        st.evaluations++;
                        st.count("enum_abandon_sweep_cases");
                        st.nontrivial(mix(mix(0xAAAA, t - d), (structure * 64 + k) * 4 + restart));
                    }
    return 0;
}

#include "glue.hpp"
