// Constructive generators: value trees and document mutations decoded from a
// byte source.  No RNG, no clock: the bytes are the only source of variation.
#pragma once
#include "common.hpp"

namespace vh {

using ref::Bytes;
using ref::Value;

struct GenCfg {
    unsigned max_nodes = 40;
    unsigned max_depth = 6;   // container nesting of the generated tree
    unsigned max_fan = 6;
    bool big = false;         // allow payloads up to 70000 bytes
    bool scalars_rich = true; // full integer / double / length distributions (else tiny scalars)
    bool objects_favoured = false;
    bool allow_wide = true;   // allow one container with hundreds of children
    unsigned wide_max = 1000;  // largest child count of the wide class
    size_t max_bytes = 300000;
};

static const uint8_t kNameAlphabet[] = {0x00, 'a', 'b', 0x7f, 0x80, 0xff};

inline int64_t gen_int(Src &s) {
    uint8_t isel = s.u8();
    if (isel >= 0xe0) {
        // decimal boundaries: d * 10^k (+ -1, 0, 1, or a 9-digit tail), either sign - where decimal formatters group digits
        uint64_t v = 1 + s.u8() % 9;
        unsigned k = s.u8() % 19;
        for (unsigned i = 0; i < k; i++) v *= 10;
        switch (s.u8() % 5) { case 0: v -= 1; break; case 1: v += 1; break; case 2: v += 123456789; break; case 3: v += (uint64_t)s.u8() * 1000000000ULL; break; default: break; }
        if (v > (uint64_t)INT64_MAX) v = (uint64_t)INT64_MAX - (v % 1000);
        int64_t r = (int64_t)v;
        return (isel & 1) ? -r : r;
    }
    switch (isel % 8) {
    case 0: return (int8_t)s.u8();
    case 1: return (int16_t)s.u16();
    case 2: {
        static const int ps[] = {7, 8, 15, 16, 31, 32, 63};
        int p = ps[s.u8() % 7];
        bool neg = s.flag();
        uint64_t base = 1ULL << p;
        uint64_t v = neg ? (uint64_t)0 - base : base;
        v += (uint64_t)(int64_t)(int16_t)s.u16();
        return (int64_t)v;
    }
    case 3: return (int32_t)s.u32();
    case 4: return (int64_t)s.u64();
    case 5: return s.u8() % 48;   // small values: also the byte offsets of tokens in small documents
    case 6: {
        static const int64_t sp[] = {0, -1, 1, INT64_MIN, INT64_MAX, INT32_MIN, INT32_MAX, INT16_MIN, INT16_MAX, INT8_MIN, INT8_MAX,
                                     128, -129, 32768, -32769, 2147483648LL, -2147483649LL, 255, 256, 65535, 65536, 4294967295LL, 4294967296LL};
        return sp[s.u8() % (sizeof sp / sizeof sp[0])];
    }
    default: {
        int k = s.u8() % 64;
        uint64_t v = 1ULL << k;
        if (s.flag()) v = (uint64_t)0 - v;
        v += (uint64_t)(int64_t)((int)(s.u8() % 3) - 1);
        return (int64_t)v;
    }
    }
}

inline uint64_t gen_double_bits(Src &s) {
    uint8_t dsel = s.u8();
    if (dsel >= 0xe8) {
        // the rounding boundaries of "%f" (6 decimals): (n + 0.5) * 1e-6 and 10^k - 5e-7, each 0..2 ulps up or down, either sign
        double v;
        uint8_t a = s.u8();
        if (a & 1) { int k = (a >> 1) % 16; v = 1.0; for (int i = 0; i < k; i++) v *= 10.0; v -= 5e-7; }
        else { v = ((double)(s.u32() % 2000000000u) + 0.5) * 1e-6; if (a & 2) v *= 1000.0; }
        uint64_t u;
        memcpy(&u, &v, 8);
        u += (uint64_t)(int64_t)((int)(s.u8() % 5) - 2);
        if (a & 0x80) u |= 0x8000000000000000ULL;
        return u;
    }
    switch (dsel % 6) {
    case 0: return s.u64();
    case 1: {
        static const uint64_t sp[] = {
            0x0000000000000000ULL, 0x8000000000000000ULL, 0x7ff0000000000000ULL, 0xfff0000000000000ULL,
            0x7ff8000000000000ULL, 0x7ff0000000000001ULL, 0xfff8000000000001ULL, 0x7ff4000000abcdefULL,
            0x0000000000000001ULL, 0x000fffffffffffffULL, 0x0010000000000000ULL, 0x7fefffffffffffffULL,
            0xffefffffffffffffULL, 0x7fe1ccf385ebc8a0ULL /* 1e308 */, 0x3ff0000000000000ULL, 0xbff0000000000000ULL,
            0x400921fb54442d18ULL, 0x3fb999999999999aULL, 0x433fffffffffffffULL, 0x43e0000000000000ULL};
        return sp[s.u8() % (sizeof sp / sizeof sp[0])];
    }
    case 2: {
        double d = (double)(int8_t)s.u8();
        uint64_t u;
        memcpy(&u, &d, 8);
        return u;
    }
    case 3: {
        double d = (double)(int16_t)s.u16() / 100.0;
        uint64_t u;
        memcpy(&u, &d, 8);
        return u;
    }
    case 4: {
        // random exponent, random mantissa bits: huge / tiny magnitudes
        uint64_t e = s.u16() & 0x7ff;
        uint64_t m = s.u32();
        return ((uint64_t)(s.flag() ? 1 : 0) << 63) | (e << 52) | (m << 20);
    }
    default: return 0x3ff0000000000000ULL;
    }
}

inline size_t gen_len(Src &s, bool big) {
    uint8_t sel = s.u8();
    if (sel >= 0xe8 && sel < 0xf0) {
        // whole multiples of common block sizes (chunked encoders / copy loops): k * c, k = 1..8 (with `big` up to 70000)
        static const uint16_t cs[] = {16, 24, 32, 48, 64, 96, 100, 128, 192, 200, 256, 384, 512, 1000, 1024, 4096};
        size_t v = (size_t)cs[s.u8() % 16] * (1 + s.u8() % 8);
        if (!big && v > 1600) v = cs[sel % 16];
        if (big && (sel & 1)) v *= 1 + s.u8() % 16;
        return v > 70000 ? 70000 - (70000 % 192) : v;
    }
    if (sel >= 0xf0) {
        // magnitudes at and around powers of two: 2^k-1, 2^k, 2^k+1 (k = 1..10, with `big` up to 2^16), 1000, 4095..4097
        unsigned k = 1 + s.u8() % (big ? 16 : 10);
        size_t v = ((size_t)1 << k) + (size_t)(s.u8() % 3) - 1;
        return v > 70000 ? 70000 : v;
    }
    switch (sel % 16) {
    case 0: case 1: case 2: case 3: case 4: case 5: case 6: case 7: case 8: case 9: return s.u8() % 4;
    case 10: case 11: return s.u8() % 24;
    case 12: return 120 + s.u8() % 16;
    case 13: return big ? 32760 + s.u8() % 16 : 126 + s.u8() % 5;
    case 14: return big ? s.u32() % 70001 : s.u8();
    default: return 127 + (s.u8() & 1);
    }
}

// a length that is either fresh or stands in a simple relation to the previous one (+-1, +-255/256, +-32768, +-65536)
inline size_t rel_len(Src &s, bool big, size_t &last) {
    uint8_t b = s.u8();
    size_t l;
    if (last != (size_t)-1 && (b & 0x0f) >= (big ? 0x0c : 0x0f)) {
        static const long d_small[] = {1, -1, 255, 256, -256, 257, 128, -128};
        static const long d_big[] = {65536, -65536, 65536, 32768, -32768, 65535, 65537, 256};
        long d = big ? d_big[(b >> 4) % 8] : d_small[(b >> 4) % 8];
        long v = (long)last + d;
        if (v < 0) v = (long)last - d;
        if (v < 0) v = 0;
        if (v > 70000) v = (long)last > 65536 ? (long)last - 65536 : 70000;
        if (!big && v > 1200) v = 1200;
        l = (size_t)v;
    } else l = gen_len(s, big);
    last = l;
    return l;
}

inline Bytes gen_payload(Src &s, size_t len) {
    Bytes b;
    if (len <= 24) {
        for (size_t i = 0; i < len; i++) b.push_back(s.u8());
    } else {
        uint8_t seed = s.u8(), step = s.u8();
        b.resize(len);
        for (size_t i = 0; i < len; i++) b[i] = (uint8_t)(seed + i * step);
        if (step & 2) for (size_t i = 0; i < len; i++) if (!b[i]) b[i] = 0x7a;  // half of the long payloads are NUL-free (C-string API, string_equals)
    }
    return b;
}

inline Bytes gen_name(Src &s, unsigned style, bool big) {
    Bytes n;
    if (style % 16 == 6) {
        // real UTF-8 text: 1-2 code points from the boundaries of the 1/2/3/4-byte forms and around the surrogate gap
        static const char *cp[] = {"\x7f", "\xc2\x80", "\xdf\xbf", "\xe0\xa0\x80", "\xed\x9f\xbf", "\xee\x80\x80", "\xef\xbf\xbd", "\xef\xbf\xbf",
                                   "\xf0\x90\x80\x80", "\xf0\x9f\x98\x80", "\xf4\x8f\xbf\xbf", "a", "\xc3\xa9", "\xe2\x82\xac"};
        unsigned cnt = 1 + s.u8() % 2;
        for (unsigned i = 0; i < cnt; i++) { const char *c = cp[s.u8() % 14]; n.insert(n.end(), (const uint8_t *)c, (const uint8_t *)c + strlen(c)); }
        return n;
    }
    switch (style % 8 == 7 ? 4 : style % 4) {
    case 4: {  // long common stem + a short distinguishing tail; the stem length is drawn per name, so that siblings are
               // prefix-related with length differences of 1..200 and (with `big`) of 1..32771 around the 15/16-bit boundaries
        static const uint32_t pl_small[] = {100, 126, 127, 128, 129, 254, 255, 256, 257, 300, 3, 7, 7, 15, 31, 63};  // + word-size stems: names of 4/8/16/32/64 bytes after a 1-byte tail
        static const uint32_t pl_huge[] = {32766, 32767, 32768, 32769, 40000, 65530, 65531, 65535, 65536, 65537};
        uint8_t ls = s.u8();
        size_t len = (big && (ls & 0x80)) ? pl_huge[ls % 10] : pl_small[ls % 16];
        n.assign(len, (uint8_t)('k'));
        unsigned tail = s.u8() % 3;
        if (len < 100) tail = 1 + tail % 2;
        for (unsigned i = 0; i < tail; i++) {
            uint8_t tb = s.u8();
            // tails: the collision alphabet, decimal digits, or any byte (siblings then differ in single bits of their last byte)
            n.push_back((ls & 0x40) ? ((tb & 1) ? (uint8_t)('0' + (tb >> 1) % 10) : (uint8_t)(tb >> 1 | (tb << 7))) : kNameAlphabet[tb % sizeof kNameAlphabet]);
        }
        break;
    }
    case 0: {  // collision-rich alphabet, length 0..3
        unsigned len = s.u8() % 4;
        for (unsigned i = 0; i < len; i++) n.push_back(kNameAlphabet[s.u8() % sizeof kNameAlphabet]);
        break;
    }
    case 1: {  // plain letters 1..2
        unsigned len = 1 + s.u8() % 2;
        for (unsigned i = 0; i < len; i++) n.push_back((uint8_t)('a' + s.u8() % 4));
        break;
    }
    case 2: {  // arbitrary bytes 0..5
        unsigned len = s.u8() % 6;
        for (unsigned i = 0; i < len; i++) n.push_back(s.u8());
        break;
    }
    default: {  // long names crossing the 127/128 boundary
        size_t len = gen_len(s, big);
        if (len > 300 && !big) len = 300;
        n = gen_payload(s, len);
        break;
    }
    }
    return n;
}

struct TreeGen {
    Src &s;
    GenCfg cfg;
    unsigned nodes = 0;
    size_t bytes = 0;
    bool wide_used = false;
    size_t last_len = (size_t)-1;
    TreeGen(Src &src, const GenCfg &c) : s(src), cfg(c) {}

    void scalar(Value &v, unsigned sel) {
        if (!cfg.scalars_rich) {
            // two scalar kinds only (small-scope shapes)
            if (sel & 1) { v.k = ref::K_INT; v.i = s.u8() % 4; }
            else { v.k = ref::K_BOOL; v.b = s.flag(); }
            return;
        }
        switch (sel % 6) {
        case 0: v.k = ref::K_BOOL; v.b = s.flag(); break;
        case 1: case 2: v.k = ref::K_INT; v.i = gen_int(s); break;
        case 3: v.k = ref::K_DBL; v.d = gen_double_bits(s); break;
        case 4: { v.k = ref::K_STR; size_t l = rel_len(s, cfg.big, last_len); if (bytes + l > cfg.max_bytes) l = 0; v.s = gen_payload(s, l); bytes += l; break; }
        default: { v.k = ref::K_BYT; size_t l = rel_len(s, cfg.big, last_len); if (bytes + l > cfg.max_bytes) l = 0; v.s = gen_payload(s, l); bytes += l; break; }
        }
    }

    void value(Value &v, unsigned depth, int force_kind /* -1 none, K_OBJ, K_ARR */) {
        nodes++;
        uint8_t b = s.u8();
        bool can_nest = depth < cfg.max_depth && nodes < cfg.max_nodes && !s.dry();
        ref::Kind k = ref::K_NONE;
        if (force_kind >= 0) k = (ref::Kind)force_kind;
        else if (can_nest) {
            unsigned m = b % 10;
            if (cfg.objects_favoured) { if (m <= 3) k = ref::K_OBJ; else if (m <= 4) k = ref::K_ARR; }
            else { if (m <= 1) k = ref::K_OBJ; else if (m <= 3) k = ref::K_ARR; }
        }
        if (k == ref::K_NONE) { scalar(v, b / 10); return; }
        v.k = k;
        uint8_t nsel = s.dry() ? 0 : s.u8();
        unsigned n = nsel % (cfg.max_fan + 1);
        if (cfg.allow_wide && nsel >= 0xf4 && !wide_used && depth <= 2) {
            // one wide container per tree: hundreds of small children (counts at and around 127/128, 255/256/257, 300, 1000)
            static const uint16_t wn[] = {127, 128, 129, 254, 255, 256, 257, 300, 511, 512, 1000};
            unsigned cnt = wn[s.u8() % 11];
            if (cnt > cfg.wide_max) cnt = 257;
            wide_used = true;
            uint8_t kind = s.u8();
            for (unsigned i = 0; i < cnt; i++) {
                Value ch;
                switch (kind % 5) {
                case 0: ch.k = ref::K_INT; ch.i = (int64_t)i - 7; break;
                case 1: ch.k = ref::K_BOOL; ch.b = i & 1; break;
                case 2: ch.k = (i % 3) ? ref::K_INT : ref::K_ARR; ch.i = i; break;           // every third child an empty array
                case 3: ch.k = (i % 5) ? ref::K_STR : ref::K_OBJ; if (ch.k == ref::K_STR) ch.s = Bytes(i % 3, (uint8_t)'s'); break;
                default: ch.k = ref::K_BYT; ch.s = Bytes(i % 2, 0x80); break;
                }
                if (k == ref::K_OBJ) {
                    ch.has_name = true;
                    // strictly ascending 2-byte names; style: plain big-endian counter, or counter with a high first byte
                    ch.name = Bytes{(uint8_t)(((kind & 0x80) ? 0x80 : 0x20) + (i >> 8)), (uint8_t)(i & 0xff)};
                }
                v.c.push_back(std::move(ch));
            }
            nodes += cnt;
            bytes += cnt * 4;
            return;
        }
        if (k == ref::K_OBJ) {
            unsigned style = s.u8();
            std::vector<Bytes> names;
            for (unsigned i = 0; i < n; i++) names.push_back(gen_name(s, style, cfg.big));
            std::sort(names.begin(), names.end(), [](const Bytes &a, const Bytes &b2) { return ref::cmp_bytes(a, b2) < 0; });
            names.erase(std::unique(names.begin(), names.end()), names.end());
            for (auto &nm : names) {
                if (nodes >= cfg.max_nodes) break;
                Value ch;
                ch.has_name = true;
                ch.name = nm;
                bytes += nm.size() + 2;
                value(ch, depth + 1, -1);
                v.c.push_back(std::move(ch));
            }
        } else {
            for (unsigned i = 0; i < n; i++) {
                if (nodes >= cfg.max_nodes) break;
                Value ch;
                value(ch, depth + 1, -1);
                v.c.push_back(std::move(ch));
            }
        }
    }
};

inline Value gen_tree(Src &s, const GenCfg &cfg, bool array_root) {
    TreeGen g(s, cfg);
    Value root;
    g.value(root, 0, array_root ? ref::K_ARR : ref::K_OBJ);
    return root;
}

// A chain of `levels` nested containers (deep-nesting class). pattern bit i: 1 = array, 0 = object.
inline Value gen_tree(Src &s, const GenCfg &cfg, bool array_root);

inline Value gen_chain(Src &s, unsigned levels, bool array_root, unsigned style) {
    // style%4 0: all same kind as root, 1: alternate, 2: from bytes, 3: mostly arrays; style >= 4: rich innermost element
    std::vector<ref::Kind> kinds;
    for (unsigned i = 0; i < levels; i++) {
        ref::Kind k;
        if (i == 0) k = array_root ? ref::K_ARR : ref::K_OBJ;
        else if (style % 4 == 0) k = kinds[0];
        else if (style % 4 == 1) k = kinds[i - 1] == ref::K_ARR ? ref::K_OBJ : ref::K_ARR;
        else if (style % 4 == 2) k = s.flag() ? ref::K_ARR : ref::K_OBJ;
        else if (style % 4 == 3 && levels > 300) k = (i % 256 == 255) ? ref::K_OBJ : ref::K_ARR;  // blocks of 255 arrays, one object between them
        else k = (i % 7 == 3) ? ref::K_OBJ : ref::K_ARR;
        kinds.push_back(k);
    }
    Value leaf;
    leaf.k = ref::K_INT;
    leaf.i = 5;
    if (style >= 4) {
        // the innermost element is a small generated tree instead of a single integer
        GenCfg g;
        g.max_nodes = 8;
        g.max_depth = 2;
        g.max_fan = 3;
        g.allow_wide = false;
        leaf = gen_tree(s, g, s.flag());
    }
    Value cur = leaf;
    uint8_t sib = (style >= 4) ? s.u8() : 0;  // which levels get a trailing sibling after the nested child (bit pattern over level % 8)
    for (unsigned i = levels; i-- > 0;) {
        Value c;
        c.k = kinds[i];
        if (c.k == ref::K_OBJ) { cur.has_name = true; cur.name = Bytes{'a'}; }
        else { cur.has_name = false; cur.name.clear(); }
        c.c.push_back(std::move(cur));
        if (sib & (1u << (i % 8))) {
            Value t;
            t.k = ref::K_INT;
            t.i = 7;
            if (c.k == ref::K_OBJ) { t.has_name = true; t.name = Bytes{'b'}; }
            c.c.push_back(std::move(t));
        }
        cur = std::move(c);
    }
    return cur;
}

// ---------------------------------------------------------------------------
// Mutations.

inline void collect(const Value &v, std::vector<const Value *> &out) {
    out.push_back(&v);
    for (auto &x : v.c) collect(x, out);
}

static const uint8_t kInteresting[] = {0x40, 0x41, 0x42, 0x43, 0x44, 0x45, 0x46, 0x10, 0x11, 0x12, 0x13, 0x14, 0x15, 0x16, 0x18, 0x19, 0x1a,
                                       0x00, 0x01, 0x7f, 0x80, 0xff, 0x17, 0x47, 0x1b};

// widen an integer-like field at [tb] (descriptor) with current width w to the next width, keeping the value
inline bool widen_at(Bytes &d, size_t desc, unsigned steps) {
    if (desc >= d.size()) return false;
    uint8_t t = d[desc];
    unsigned wi = t & 3;
    uint8_t base = (uint8_t)(t & ~3);
    unsigned maxw = (base == 0x10) ? 3 : 2;
    if (!(base == 0x10 || base == 0x14 || base == 0x18)) return false;
    if (wi >= maxw) return false;
    unsigned nwi = wi + 1 + steps % (maxw - wi);
    size_t w = 1u << wi, nw = 1u << nwi;
    if (desc + 1 + w > d.size()) return false;
    uint8_t sign = (d[desc + w] & 0x80) ? 0xff : 0x00;
    d[desc] = (uint8_t)(base + nwi);
    d.insert(d.begin() + (long)(desc + 1 + w), nw - w, sign);
    return true;
}

// narrows an integer-like field (descriptor at desc) by one width step, keeping the low bytes: a length of
// 32768..65535 becomes a negative int16, 128..255 a negative int8, larger values are truncated
inline bool narrow_at(Bytes &d, size_t desc) {
    if (desc >= d.size()) return false;
    uint8_t t = d[desc];
    unsigned wi = t & 3;
    uint8_t base = (uint8_t)(t & ~3);
    if (!(base == 0x10 || base == 0x14 || base == 0x18) || wi == 0) return false;
    size_t w = 1u << wi, nw = w / 2;
    if (desc + 1 + w > d.size()) return false;
    d[desc] = (uint8_t)(base + wi - 1);
    d.erase(d.begin() + (long)(desc + 1 + nw), d.begin() + (long)(desc + 1 + w));
    return true;
}

// applies one structural mutation guided by the tree of a valid document; returns a label or nullptr
inline const char *mutate_structural(Bytes &d, const Value &root, Src &s) {
    std::vector<const Value *> all;
    collect(root, all);
    if (all.empty()) return nullptr;
    const Value *v = all[s.below((uint32_t)all.size())];
    switch (s.u8() % 13) {
    case 12:  // a length or integer squeezed into the next narrower width
        for (size_t i = 0, st = s.below((uint32_t)all.size()); i < all.size(); i++) {
            const Value *x = all[(st + i) % all.size()];
            if ((x->k == ref::K_STR || x->k == ref::K_BYT || x->k == ref::K_INT) && narrow_at(d, x->tb)) return "mut:narrowed-width";
            if (x->has_name && narrow_at(d, x->ntb)) return "mut:narrowed-name-length";
        }
        return nullptr;
    case 0:  // non-minimal integer
        for (size_t i = 0, st = s.below((uint32_t)all.size()); i < all.size(); i++) {
            const Value *x = all[(st + i) % all.size()];
            if (x->k == ref::K_INT && widen_at(d, x->tb, s.u8())) return "mut:int-nonminimal";
        }
        return nullptr;
    case 1:  // non-minimal string/bytes length
        for (size_t i = 0, st = s.below((uint32_t)all.size()); i < all.size(); i++) {
            const Value *x = all[(st + i) % all.size()];
            if ((x->k == ref::K_STR || x->k == ref::K_BYT) && widen_at(d, x->tb, s.u8())) return "mut:len-nonminimal";
        }
        return nullptr;
    case 2:  // non-minimal name length
        for (size_t i = 0, st = s.below((uint32_t)all.size()); i < all.size(); i++) {
            const Value *x = all[(st + i) % all.size()];
            if (x->has_name && widen_at(d, x->ntb, s.u8())) return "mut:namelen-nonminimal";
        }
        return nullptr;
    case 3: {  // swap two adjacent fields (order) or elements
        for (size_t i = 0, st = s.below((uint32_t)all.size()); i < all.size(); i++) {
            const Value *x = all[(st + i) % all.size()];
            if (x->c.size() >= 2) {
                size_t j = s.below((uint32_t)(x->c.size() - 1));
                const Value &a = x->c[j], &b = x->c[j + 1];
                size_t ab = a.has_name ? a.ntb : a.tb, bb = b.has_name ? b.ntb : b.tb;
                Bytes A(d.begin() + (long)ab, d.begin() + (long)a.te), B(d.begin() + (long)bb, d.begin() + (long)b.te);
                Bytes nd(d.begin(), d.begin() + (long)ab);
                nd.insert(nd.end(), B.begin(), B.end());
                nd.insert(nd.end(), A.begin(), A.end());
                nd.insert(nd.end(), d.begin() + (long)b.te, d.end());
                d = nd;
                return x->k == ref::K_OBJ ? "mut:swap-fields" : "mut:swap-elements";
            }
        }
        return nullptr;
    }
    case 4: {  // duplicate a field / element in place
        if (v == &root) return nullptr;
        size_t b = v->has_name ? v->ntb : v->tb;
        Bytes A(d.begin() + (long)b, d.begin() + (long)v->te);
        d.insert(d.begin() + (long)v->te, A.begin(), A.end());
        return v->has_name ? "mut:dup-field" : "mut:dup-element";
    }
    case 5:  // change an END kind
        if (!v->is_container()) return nullptr;
        d[v->te - 1] ^= 0x02;
        return "mut:end-kind";
    case 6:  // change a BEGIN kind
        if (!v->is_container()) return nullptr;
        d[v->tb] ^= 0x02;
        return "mut:begin-kind";
    case 7:  // remove an END byte
        if (!v->is_container()) return nullptr;
        d.erase(d.begin() + (long)(v->te - 1));
        return "mut:drop-end";
    case 8:  // delete a value token, keep its name (or delete an element)
        if (v == &root) return nullptr;
        d.erase(d.begin() + (long)v->tb, d.begin() + (long)v->te);
        return v->has_name ? "mut:name-without-value" : "mut:drop-element";
    case 9:  // delete a name token, keep the value
        if (!v->has_name) return nullptr;
        d.erase(d.begin() + (long)v->ntb, d.begin() + (long)v->tb);
        return "mut:value-without-name";
    case 10: {  // make a length negative or too large
        if (!(v->k == ref::K_STR || v->k == ref::K_BYT)) {
            if (!v->has_name) return nullptr;
            d[v->ntb + 1] = (uint8_t)(s.flag() ? 0xff : 0x7f);
            return "mut:namelen-bad";
        }
        d[v->tb + 1] = (uint8_t)(s.flag() ? 0x80 : 0x7f);
        return "mut:len-bad";
    }
    default: {  // truncate inside this token, then restore a plausible last byte
        size_t b = v->has_name ? v->ntb : v->tb;
        if (v->te <= b + 1) return nullptr;
        size_t cut = b + 1 + s.below((uint32_t)(v->te - b - 1));
        uint8_t last = d.back();
        d.resize(cut);
        if (s.flag()) d.push_back(last);
        return "mut:truncate-in-token";
    }
    }
}

inline const char *mutate_bytes(Bytes &d, Src &s) {
    if (d.empty()) { d.push_back(s.u8()); return "mut:append"; }
    size_t pos = s.below((uint32_t)d.size());
    switch (s.u8() % 10) {
    case 0: d[pos] ^= (uint8_t)(1u << (s.u8() % 8)); return "mut:bitflip";
    case 1: d[pos] = kInteresting[s.u8() % sizeof kInteresting]; return "mut:set-interesting";
    case 2: d[pos] = s.u8(); return "mut:set-byte";
    case 3: d.insert(d.begin() + (long)pos, kInteresting[s.u8() % sizeof kInteresting]); return "mut:insert";
    case 4: d.erase(d.begin() + (long)pos); return "mut:delete";
    case 5: {
        size_t len = 1 + s.below((uint32_t)std::min<size_t>(8, d.size() - pos));
        d.erase(d.begin() + (long)pos, d.begin() + (long)(pos + len));
        return "mut:delete-range";
    }
    case 6: if (pos + 1 < d.size()) std::swap(d[pos], d[pos + 1]); return "mut:swap";
    case 7: {
        uint8_t last = d.back();
        d.resize(pos);
        d.push_back(last);
        return "mut:truncate-keep-last";
    }
    case 8: d.push_back(kInteresting[s.u8() % sizeof kInteresting]); return "mut:append";
    default: d[pos] = (uint8_t)(d[pos] + (s.flag() ? 1 : 0xff)); return "mut:incdec";
    }
}

}  // namespace vh
