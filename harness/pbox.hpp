// Parser / writer objects in exactly-sized heap blocks.
#pragma once
#include "common.hpp"
extern "C" {
#include "binson_light.h"
}

namespace vh {

// A parser whose struct, state array and input each live in their own heap
// block of exactly the size the API contract gives the library.
struct PBox {
    Block pmem;    // sizeof(binson_parser)
    Block smem;    // max_depth * sizeof(binson_state)
    Block input;   // exactly len bytes
    Block shadow;  // pristine copy of the input (to detect writes through the const pointer)
    binson_parser *p = nullptr;
    unsigned max_depth = 0;

    // prefill: bytes used to pre-fill the struct (cycled) and one byte for the state array
    void make(unsigned depth, const uint8_t *prefill, size_t nprefill, uint8_t state_fill) {
        max_depth = depth ? depth : 1;
        pmem.alloc(sizeof(binson_parser));
        smem.alloc(sizeof(binson_state) * max_depth);
        if (nprefill) for (size_t i = 0; i < pmem.n; i++) pmem.p[i] = prefill[i % nprefill];
        else pmem.fill(0);
        smem.fill(state_fill);
        p = (binson_parser *)(void *)pmem.p;
        // what BINSON_PARSER_DEF_DEPTH does:
        p->max_depth = (uint_fast8_t)max_depth;
        p->state = (binson_state *)(void *)smem.p;
    }
    void set_input(const uint8_t *d, size_t n) {
        input.alloc(n);
        shadow.alloc(n);
        if (n) { memcpy(input.p, d, n); memcpy(shadow.p, d, n); }
    }
    void set_input(const ref::Bytes &b) { set_input(b.data(), b.size()); }
    bool init(bool array_root) {
        return array_root ? binson_parser_init_array(p, input.p, input.n) : binson_parser_init_object(p, input.p, input.n);
    }
    bool input_intact() const { return input.n == 0 || memcmp(input.p, shadow.p, input.n) == 0; }
    // span check: b lies inside the input block
    bool inside(const bbuf *b) const {
        if (!b) return true;
        if (b->bsize == 0 && b->bptr == nullptr) return true;
        const uint8_t *lo = input.p, *hi = input.p + input.n;
        return b->bptr >= lo && b->bptr <= hi && b->bsize <= (size_t)(hi - b->bptr);
    }
};

inline const char *err_name(int e) {
    switch (e) {
    case BINSON_ERROR_NONE: return "NONE";
    case BINSON_ERROR_RANGE: return "RANGE";
    case BINSON_ERROR_FORMAT: return "FORMAT";
    case BINSON_ERROR_EOF: return "EOF";
    case BINSON_ERROR_END_OF_BLOCK: return "END_OF_BLOCK";
    case BINSON_ERROR_NULL: return "NULL";
    case BINSON_ERROR_STATE: return "STATE";
    case BINSON_ERROR_WRONG_TYPE: return "WRONG_TYPE";
    case BINSON_ERROR_MAX_DEPTH_OBJECT: return "MAX_DEPTH_OBJECT";
    case BINSON_ERROR_MAX_DEPTH_ARRAY: return "MAX_DEPTH_ARRAY";
    }
    return "?";
}

inline binson_type to_btype(ref::Kind k) {
    switch (k) {
    case ref::K_OBJ: return BINSON_TYPE_OBJECT;
    case ref::K_ARR: return BINSON_TYPE_ARRAY;
    case ref::K_BOOL: return BINSON_TYPE_BOOLEAN;
    case ref::K_INT: return BINSON_TYPE_INTEGER;
    case ref::K_DBL: return BINSON_TYPE_DOUBLE;
    case ref::K_STR: return BINSON_TYPE_STRING;
    case ref::K_BYT: return BINSON_TYPE_BYTES;
    default: return BINSON_TYPE_NONE;
    }
}

static const unsigned kDepths[5] = {1, 2, 3, 10, 255};

// depth selector: 5/8 of the time one of the listed depths, else any 1..255
inline unsigned pick_depth(Src &s) {
    uint8_t b = s.u8();
    if (b % 8 < 5) return kDepths[b % 8];
    unsigned d = s.u8();
    return d ? d : 1;
}

}  // namespace vh
