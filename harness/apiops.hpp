// Arbitrary call sequences over the whole public parser API (shared by the
// apiseq harness: C01 / C09 parser half / C16, and the reuse harness: C12).
#pragma once
#include <fcntl.h>
#include <unistd.h>

#include "doccase.hpp"

using namespace vh;

static const char *prop() {
    static const char *p = getenv("VH_PROP") ? getenv("VH_PROP") : "C01";
    return p;
}
static bool is09() { static bool b = !strcmp(prop(), "C09"); return b; }
static bool is16() { static bool b = !strcmp(prop(), "C16"); return b; }

enum Op {
    A_INIT_OBJ = 0, A_INIT_ARR, A_INIT_PREFIX, A_RESET, A_VERIFY, A_NEXT, A_NEXT_ENS, A_GET_TYPE, A_GET_DEPTH, A_INTO_OBJ, A_LEAVE_OBJ, A_INTO_ARR,
    A_LEAVE_ARR, A_GET_NAME, A_GET_INT, A_GET_BOOL, A_GET_DBL, A_GET_STR, A_GET_BYTES, A_GET_RAW, A_STR_EQ, A_FIELD, A_FIELD_LEN, A_FIELD_ENS,
    A_FIELD_ENS_LEN, A_PRINT, A_TO_STRING, A_TO_WRITER, A_FIELD_NULL, A_N
};
static const char *kOp[] = {"init_object", "init_array", "init_prefix", "reset", "verify", "next", "next_ensure", "get_type", "get_depth", "go_into_object",
                            "leave_object", "go_into_array", "leave_array", "get_name", "get_integer", "get_boolean", "get_double", "get_string_bbuf",
                            "get_bytes_bbuf", "get_raw", "string_equals", "field", "field_with_length", "field_ensure", "field_ensure_with_length", "print",
                            "to_string", "to_writer", "field_with_length(NULL)"};

static const binson_type kTypes[] = {BINSON_TYPE_OBJECT, BINSON_TYPE_ARRAY, BINSON_TYPE_BOOLEAN, BINSON_TYPE_INTEGER, BINSON_TYPE_DOUBLE, BINSON_TYPE_STRING, BINSON_TYPE_BYTES,
                                     BINSON_TYPE_NONE};

static unsigned pick(uint8_t b) {
    // navigation ops are the frequent ones; inits and resets rarer so that sequences get deep
    static const uint8_t t[64] = {
        A_NEXT, A_NEXT, A_NEXT, A_NEXT, A_NEXT, A_NEXT, A_NEXT, A_NEXT, A_INTO_OBJ, A_INTO_OBJ, A_INTO_OBJ, A_INTO_OBJ, A_INTO_ARR, A_INTO_ARR, A_INTO_ARR, A_INTO_ARR,
        A_LEAVE_OBJ, A_LEAVE_OBJ, A_LEAVE_OBJ, A_LEAVE_ARR, A_LEAVE_ARR, A_LEAVE_ARR, A_GET_RAW, A_GET_RAW, A_TO_WRITER, A_FIELD, A_FIELD, A_FIELD_LEN, A_FIELD_LEN, A_FIELD_LEN, A_FIELD_ENS, A_FIELD_ENS_LEN,
        A_NEXT_ENS, A_NEXT_ENS, A_GET_TYPE, A_GET_DEPTH, A_GET_NAME, A_GET_NAME, A_GET_INT, A_GET_BOOL, A_GET_DBL, A_GET_STR, A_GET_STR, A_GET_BYTES, A_GET_BYTES, A_STR_EQ, A_STR_EQ, A_VERIFY,
        A_VERIFY, A_RESET, A_RESET, A_INIT_OBJ, A_INIT_ARR, A_INIT_PREFIX, A_INIT_PREFIX, A_PRINT, A_TO_STRING, A_TO_STRING, A_TO_STRING, A_FIELD_NULL, A_NEXT, A_INTO_OBJ, A_LEAVE_OBJ, A_LEAVE_ARR};
    return t[b % 64];
}

struct Run;
static unsigned pick_smart(uint8_t b, Run &r);

struct Count {
    uint64_t tokens;
};
static void count_cb(binson_parser *, uint16_t, void *ctx) { ((Count *)ctx)->tokens++; }

static int g_devnull = -1;

struct Run {
    PBox pb;
    Bytes doc;
    bool arr = false;
    std::vector<std::string> log;
    bool keep_log = false;
    // protocol shadow (only used to gate lookups, see DESIGN C01-N)
    std::vector<char> shadow;  // 'o' / 'a'
    bool shadow_valid = false, root_left = false;
    bool inited_ok = false;
    // C09
    bool latched = false;
    unsigned calls_after_latch = 0, adv_after_latch = 0, get_after_latch = 0;
    int latch_err = 0;
    // stats
    unsigned adv_ok = 0, after_reject_calls = 0, spans = 0, multi_token_calls = 0;
    uint64_t ophash = 0;
    bool rejected_init_then_call = false;
    bool cur_input_is_prefix = false;
    Block prefix;  // current truncated-prefix input (kept alive while the parser points at it)
    const uint8_t *cur_buf = nullptr;
    size_t cur_len = 0;
    Block wbuf;
    binson_writer w;

    // observable trace (C12): one hash per call over everything the API lets the caller see
    bool record = false;
    std::vector<uint64_t> trace;
    std::vector<std::string> trace_text;
    uint64_t cur_obs = 0;
    std::string cur_txt;
    void ob(const char *what, uint64_t x) {
        if (!record) return;
        cur_obs = mix(cur_obs, x);
        if (keep_log) cur_txt += fmt(" %s=%" PRIx64, what, x);
    }
    void ob_span(const char *what, const bbuf *b) {
        if (!record) return;
        if (!b) { ob(what, ~0ULL); return; }
        ob(what, mix((uint64_t)(b->bsize ? b->bptr - cur_buf : 0), b->bsize));
    }
    Bytes last_string;  // content of the last string value the script read (string_equals argument)
    bool have_last_string() const { return !last_string.empty(); }
    FILE *echo = nullptr;  // describe mode: print every call before it is made (a sanitizer abort still shows the history)
    void note(const char *op, const std::string &extra = "") {
        if (keep_log) log.push_back(extra.empty() ? op : std::string(op) + "(" + extra + ")");
        if (echo) { fprintf(echo, "    call %s%s%s%s\n", op, extra.empty() ? "" : "(", extra.c_str(), extra.empty() ? "" : ")"); fflush(echo); }
    }
    std::string ctx() const {
        std::string o;
        size_t from = log.size() > 30 ? log.size() - 30 : 0;
        for (size_t i = from; i < log.size(); i++) { o += log[i]; o += "; "; }
        return fmt("root=%s max_depth=%u len=%zu doc=%s ops[%zu]: %s", arr ? "array" : "object", pb.max_depth, doc.size(), ref::hex(doc, 120).c_str(), log.size(), o.c_str());
    }
    [[noreturn]] void fail(const char *op, const std::string &what, const std::string &detail) {
        throw Failure{std::string(prop()) + "/" + op + "/" + what, detail + " | " + ctx()};
    }

    bool span_ok(const bbuf *b) const {
        if (!b) return true;
        if (b->bsize == 0) return true;  // an empty span names no byte
        return b->bptr >= cur_buf && b->bptr <= cur_buf + cur_len && b->bsize <= (size_t)(cur_buf + cur_len - b->bptr);
    }
    void check_span(const char *op, const bbuf *b) {
        if (!b) return;
        spans++;
        if (!span_ok(b)) fail(op, "span-outside-buffer", fmt("returned span ptr-off=%td size=%zu, buffer length %zu", b->bptr - cur_buf, b->bsize, cur_len));
    }

    void after_init(bool ok) {
        inited_ok = ok;
        shadow.clear();
        shadow_valid = ok;
        root_left = false;
    }
    bool lookups_allowed() const { return shadow_valid && !shadow.empty() && shadow.back() == 'o'; }

    // one scripted call; returns nothing (the script ignores results)
    void call(unsigned op, Src &s) {
        binson_parser *p = pb.p;
        ophash = mix(ophash, op + 1);
        cur_obs = op + 1;
        cur_txt.clear();
        bool was_latched = latched;
        int err_before = p->error_flags;
        (void)err_before;
        size_t used_before = p->buffer_used;
        Count cnt{0};
        bool measure = is16() && inited_ok && op != A_PRINT && op != A_TO_STRING && op != A_INIT_OBJ && op != A_INIT_ARR && op != A_INIT_PREFIX;
        if (measure) { p->cb = count_cb; p->cb_context = &cnt; }
        bool restart = false;   // call restarts at offset 0
        bool advancing = false; // advancing call (C09: must return false while latched)
        bool ret = false;
        bool has_ret = false;
        if (!inited_ok && !(op <= A_INIT_PREFIX)) { after_reject_calls++; rejected_init_then_call = true; }
        switch (op) {
        case A_INIT_OBJ:
        case A_INIT_ARR: {
            note(kOp[op]);
            cur_buf = pb.input.p; cur_len = pb.input.n;
            bool a = op == A_INIT_ARR;
            bool r = a ? binson_parser_init_array(p, pb.input.p, pb.input.n) : binson_parser_init_object(p, pb.input.p, pb.input.n);
            arr = a;
            after_init(r);
            ob("ret", r);
            restart = true;
            break;
        }
        case A_INIT_PREFIX: {
            size_t n = pb.input.n ? s.u16() % (pb.input.n + 1) : 0;
            note(kOp[op], fmt("%zu", n));
            prefix.alloc(n);
            if (n) memcpy(prefix.p, pb.input.p, n);
            cur_buf = prefix.p; cur_len = n;
            bool a = s.flag();
            bool r = a ? binson_parser_init_array(p, prefix.p, n) : binson_parser_init_object(p, prefix.p, n);
            arr = a;
            after_init(r);
            ob("ret", r);
            restart = true;
            break;
        }
        case A_RESET: {
            note(kOp[op]);
            bool r = binson_parser_reset(p);
            ob("ret", r);
            if (r) after_init(true); else shadow_valid = false;
            restart = true;
            break;
        }
        case A_VERIFY: {
            note(kOp[op]);
            bool r = binson_parser_verify(p);
            ob("ret", r);
            if (r) after_init(true); else shadow_valid = false;
            restart = true;
            break;
        }
        case A_NEXT: note(kOp[op]); ret = binson_parser_next(p); has_ret = true; advancing = true;
            if (shadow.empty()) shadow_valid = false;
            break;
        case A_NEXT_ENS: {
            binson_type t = kTypes[s.u8() % 8];
            note(kOp[op], fmt("%d", (int)t));
            ret = binson_parser_next_ensure(p, t); has_ret = true; advancing = true;
            if (shadow.empty()) shadow_valid = false;
            break;
        }
        case A_GET_TYPE: { note(kOp[op]); binson_type t = binson_parser_get_type(p); ob("type", (uint64_t)t); if (was_latched && t != BINSON_TYPE_NONE && is09()) fail(kOp[op], "not-neutral-after-error", "get_type != NONE while an error is set"); if (was_latched) get_after_latch++; break; }
        case A_GET_DEPTH: note(kOp[op]); ob("depth", binson_parser_get_depth(p)); break;
        case A_INTO_OBJ:
        case A_INTO_ARR: {
            note(kOp[op]);
            bool obj = op == A_INTO_OBJ;
            binson_type t = binson_parser_get_type(p);
            size_t d0 = binson_parser_get_depth(p);
            ret = obj ? binson_parser_go_into_object(p) : binson_parser_go_into_array(p);
            has_ret = true; advancing = true;
            size_t d1 = binson_parser_get_depth(p);
            bool legal = shadow_valid && ((shadow.empty() && !root_left && (arr ? !obj : obj)) ||
                                          (!shadow.empty() && t == (obj ? BINSON_TYPE_OBJECT : BINSON_TYPE_ARRAY)));
            if (legal && ret && d1 == d0 + (obj ? 1 : 0)) shadow.push_back(obj ? 'o' : 'a');
            else shadow_valid = false;
            break;
        }
        case A_LEAVE_OBJ:
        case A_LEAVE_ARR: {
            note(kOp[op]);
            bool obj = op == A_LEAVE_OBJ;
            ret = obj ? binson_parser_leave_object(p) : binson_parser_leave_array(p);
            has_ret = true; advancing = true;
            if (shadow_valid && !shadow.empty() && shadow.back() == (obj ? 'o' : 'a') && ret) { shadow.pop_back(); if (shadow.empty()) root_left = true; }
            else shadow_valid = false;
            break;
        }
        case A_GET_NAME: { note(kOp[op]); bbuf *b = binson_parser_get_name(p); check_span(kOp[op], b); ob_span("name", b); if (was_latched) { get_after_latch++; if (b && is09()) fail(kOp[op], "not-neutral-after-error", "get_name != NULL while an error is set"); } break; }
        case A_GET_INT: { note(kOp[op]); int64_t v = binson_parser_get_integer(p); ob("int", (uint64_t)v); if (was_latched) { get_after_latch++; if (v != 0 && is09()) fail(kOp[op], "not-neutral-after-error", "get_integer != 0 while an error is set"); } break; }
        case A_GET_BOOL: { note(kOp[op]); bool v = binson_parser_get_boolean(p); ob("bool", v); if (was_latched) { get_after_latch++; if (v && is09()) fail(kOp[op], "not-neutral-after-error", "get_boolean != false while an error is set"); } break; }
        case A_GET_DBL: { note(kOp[op]); double v = binson_parser_get_double(p); uint64_t u; memcpy(&u, &v, 8); ob("dbl", u); if (was_latched) { get_after_latch++; if (u != 0 && is09()) fail(kOp[op], "not-neutral-after-error", "get_double != +0.0 while an error is set"); } break; }
        case A_GET_STR: { note(kOp[op]); bbuf *b = binson_parser_get_string_bbuf(p); check_span(kOp[op], b); ob_span("str", b);
            if (b && b->bsize <= 64 && span_ok(b)) last_string.assign(b->bptr, b->bptr + b->bsize); if (was_latched) { get_after_latch++; if (b && is09()) fail(kOp[op], "not-neutral-after-error", "get_string_bbuf != NULL while an error is set"); } break; }
        case A_GET_BYTES: { note(kOp[op]); bbuf *b = binson_parser_get_bytes_bbuf(p); check_span(kOp[op], b); ob_span("bytes", b); if (was_latched) { get_after_latch++; if (b && is09()) fail(kOp[op], "not-neutral-after-error", "get_bytes_bbuf != NULL while an error is set"); } break; }
        case A_GET_RAW: {
            note(kOp[op]);
            bbuf raw; raw.bptr = nullptr; raw.bsize = 0;
            ret = binson_parser_get_raw(p, &raw); has_ret = true; advancing = true;
            if (ret) { check_span(kOp[op], &raw); ob_span("raw", &raw); }
            if (shadow.empty()) shadow_valid = false;
            break;
        }
        case A_TO_WRITER: {
            note(kOp[op]);
            if (binson_writer_get_counter(&w) > wbuf.n / 2) binson_writer_init(&w, wbuf.p, wbuf.n);
            ret = binson_parser_to_writer(p, &w); has_ret = true; advancing = true;
            if (shadow.empty()) shadow_valid = false;
            break;
        }
        case A_STR_EQ: {
            uint8_t sel = s.u8();
            unsigned l = sel % 5;
            bool remembered = (sel & 0x80) && have_last_string();
            if (remembered) l = (unsigned)last_string.size();
            Block nb(l + 1);
            for (unsigned i = 0; i < l; i++) { uint8_t c = remembered ? last_string[i] : s.u8(); nb.p[i] = c ? c : 'a'; }
            nb.p[l] = 0;
            note(kOp[op]);
            bool v = binson_parser_string_equals(p, (const char *)nb.p); ob("streq", v);
            if (was_latched) { get_after_latch++; if (v && is09()) fail(kOp[op], "not-neutral-after-error", "string_equals true while an error is set"); }
            break;
        }
        case A_FIELD: case A_FIELD_LEN: case A_FIELD_ENS: case A_FIELD_ENS_LEN: {
            // name: taken from the document bytes (likely a real name), or from the case
            Bytes name;
            uint8_t sel = s.u8();
            if ((sel & 3) != 0 && cur_len > 3) {
                size_t off = s.u16() % cur_len;
                size_t l = sel >> 5;
                for (size_t i = 0; i < l && off + i < cur_len; i++) name.push_back(cur_buf[off + i]);
            } else {
                unsigned l = (sel >> 2) % 6;
                for (unsigned i = 0; i < l; i++) name.push_back(s.u8());
            }
            bool cform = (op == A_FIELD || op == A_FIELD_ENS);
            if (cform) for (auto &c : name) if (!c) c = 'a';
            binson_type t = kTypes[s.u8() % 8];
            if (!lookups_allowed() && p->error_flags == BINSON_ERROR_NONE && !is09()) {
                // documented precondition not met: do not issue the lookup (C01 assumes lookups only inside objects)
                note("lookup-skipped");
                ophash = mix(ophash, 0x77);
                return;
            }
            if (!lookups_allowed() && p->error_flags == BINSON_ERROR_NONE) { note("lookup-skipped"); return; }
            note(kOp[op], ref::hex(name, 8));
            Block nb(name.size() + (cform ? 1 : 0));
            if (!name.empty()) memcpy(nb.p, name.data(), name.size());
            if (cform) nb.p[name.size()] = 0;
            switch (op) {
            case A_FIELD: ret = binson_parser_field(p, (const char *)nb.p); break;
            case A_FIELD_LEN: ret = binson_parser_field_with_length(p, (const char *)nb.p, name.size()); break;
            case A_FIELD_ENS: ret = binson_parser_field_ensure(p, (const char *)nb.p, t); break;
            default: ret = binson_parser_field_ensure_with_length(p, (const char *)nb.p, name.size(), t); break;
            }
            has_ret = true; advancing = true;
            break;
        }
        case A_FIELD_NULL: {
            if (!is09()) { op = A_NEXT; note("next"); ret = binson_parser_next(p); has_ret = true; advancing = true; if (shadow.empty()) shadow_valid = false; break; }
            note(kOp[op]);
            ret = binson_parser_field_with_length(p, NULL, s.u8() % 4); has_ret = true; advancing = true;
            break;
        }
#ifdef BINSON_PARSER_WITH_PRINT
        case A_PRINT: {
            note(kOp[op]);
            fflush(stdout);
            int saved = dup(1);
            if (g_devnull < 0) g_devnull = open("/dev/null", O_WRONLY);
            dup2(g_devnull, 1);
            bool r = binson_parser_print(p);
            ob("ret", r);
            fflush(stdout);
            dup2(saved, 1);
            close(saved);
            if (r) after_init(true); else shadow_valid = false;
            restart = true;
            break;
        }
        case A_TO_STRING: {
            size_t cap = s.u16() % (2 * cur_len + 40);
            bool null = (s.u8() % 8) == 0;
            note(kOp[op], null ? "NULL" : fmt("%zu", cap));
            Block dst(null ? 0 : cap);
            dst.fill(0xAB);
            size_t sz = cap;
            bool r = binson_parser_to_string(p, null ? nullptr : (char *)dst.p, &sz, s.flag());
            ob("ret", r); ob("size", sz);
            if (record && r) ob("text", fnv(dst.p, sz < dst.n ? sz : dst.n));
            if (r) after_init(true); else shadow_valid = false;
            restart = true;
            break;
        }
#else
        case A_PRINT:
        case A_TO_STRING:
            note("get_depth");
            ob("depth", binson_parser_get_depth(p));
            break;
#endif
        default: break;
        }
        if (measure) { p->cb = NULL; p->cb_context = NULL; }
        if (has_ret && ret && advancing) adv_ok++;
        if (record) {
            if (has_ret) ob("ret", ret);
            ob("err", (uint64_t)p->error_flags);
            if (inited_ok) ob("d", binson_parser_get_depth(p));
            trace.push_back(cur_obs);
            if (keep_log) trace_text.push_back((log.empty() ? std::string("?") : log.back()) + " ->" + cur_txt);
        }

        // ---- C09: latching
        if (is09()) {
            if (was_latched && !restart) {
                calls_after_latch++;
                if (advancing) {
                    adv_after_latch++;
                    if (ret) fail(kOp[op], "ret=true-after-error", fmt("advancing call returned true although error %s was set before it", err_name(latch_err)));
                }
                if (p->error_flags == BINSON_ERROR_NONE) fail(kOp[op], "error-cleared", fmt("error %s vanished without reset/init/verify", err_name(latch_err)));
            }
        }
        if (restart || !was_latched) {
            latched = inited_ok ? (p->error_flags != BINSON_ERROR_NONE) : (p->error_flags != BINSON_ERROR_NONE);
            if (latched && (!was_latched || restart)) latch_err = p->error_flags;
        }

        // ---- C16: work per call
        if (measure) {
            size_t used_after = p->buffer_used;
            if (cnt.tokens >= 2) multi_token_calls++;
            if (cnt.tokens > (uint64_t)cur_len + 1) fail(kOp[op], "tokens>len", "more tokens than input bytes in one call");
            if (restart) return;  // reset/verify start at offset 0 and (verify) end there again: only the whole-buffer bound applies
            if (used_after < used_before) fail(kOp[op], "cursor-moved-back", fmt("cursor %zu -> %zu", used_before, used_after));
            uint64_t adv = used_after - used_before;
            // a failed lookup processed one more (name) token that it then rewound over
            uint64_t slack = (op >= A_FIELD && op <= A_FIELD_ENS_LEN && !ret) ? 2 : 1;
            if (op == A_GET_RAW || op == A_TO_WRITER) slack = 2;  // two internal scans, each may stop on an un-consumed BEGIN
            if (cnt.tokens > adv + slack) fail(kOp[op], "tokens>bytes", fmt("%" PRIu64 " token callbacks for %" PRIu64 " bytes advanced", cnt.tokens, adv));
        }
    }
};

// protocol-aware picker (used by half of the cases) so that scripts reach deep cursor states instead of
// dying in the first STATE/WRONG_TYPE error; the other half stays fully arbitrary.
static unsigned pick_smart(uint8_t b, Run &r) {
    binson_parser *p = r.pb.p;
    if (!r.inited_ok || p->error_flags != BINSON_ERROR_NONE || !r.shadow_valid) return pick(b);
    unsigned m = b % 32;
    if (r.shadow.empty()) {
        if (r.root_left) return m < 8 ? A_VERIFY : m < 16 ? A_RESET : pick(b);
        return m < 26 ? (r.arr ? A_INTO_ARR : A_INTO_OBJ) : pick(b);
    }
    binson_type t = binson_parser_get_type(p);
    bool in_obj = r.shadow.back() == 'o';
    if ((t == BINSON_TYPE_OBJECT || t == BINSON_TYPE_ARRAY) && m < 12) return t == BINSON_TYPE_OBJECT ? A_INTO_OBJ : A_INTO_ARR;
    if ((t == BINSON_TYPE_OBJECT || t == BINSON_TYPE_ARRAY) && m < 16) return m & 1 ? A_GET_RAW : A_TO_WRITER;
    if (m < 22) return A_NEXT;
    if (m < 24) return in_obj ? A_LEAVE_OBJ : A_LEAVE_ARR;
    if (m < 26) return in_obj ? (m & 1 ? A_FIELD_LEN : A_FIELD) : A_NEXT;
    if (m == 26) return in_obj && t != BINSON_TYPE_NONE ? A_GET_NAME : A_GET_TYPE;
    if (m == 27) return t == BINSON_TYPE_STRING ? A_GET_STR : t == BINSON_TYPE_BYTES ? A_GET_BYTES : t == BINSON_TYPE_INTEGER ? A_GET_INT : A_GET_DBL;
    if (m == 28) return A_STR_EQ;
    return pick(b);
}

