// C13 / C14: binson_parser_to_string size protocol and rendered text.
//   VH_PROP=C14: to_string text and print's stdout == reference rendering (valid documents)
//   VH_PROP=C13: size protocol over a capacity sweep, destination = exactly-capacity heap block
#include <fcntl.h>
#include <sys/mman.h>
#include <unistd.h>

#include "doccase.hpp"
#include "shapes.hpp"

using namespace vh;

static const char *prop() {
    static const char *p = getenv("VH_PROP") ? getenv("VH_PROP") : "C14";
    return p;
}
static bool is13() { static bool b = !strcmp(prop(), "C13"); return b; }

static DocOpts opts() {
    DocOpts o;
    o.cfg.max_nodes = 24;
    o.cfg.max_depth = 6;
    o.cfg.max_fan = 5;
    o.allow_invalid = is13();
    o.depth_sufficient = true;
    return o;
}

static std::string printable(const std::string &s, size_t lim = 300) {
    std::string o;
    for (size_t i = 0; i < s.size() && i < lim; i++) {
        unsigned char c = (unsigned char)s[i];
        if (c >= 0x20 && c < 0x7f) o.push_back((char)c);
        else o += fmt("\\x%02x", c);
    }
    if (s.size() > lim) o += fmt("...(%zu chars)", s.size());
    return o;
}

// captures what binson_parser_print writes to fd 1
static bool capture_print(binson_parser *p, std::string &out) {
    static int mfd = -1;
    if (mfd < 0) mfd = memfd_create("print", 0);
    fflush(stdout);
    if (ftruncate(mfd, 0) != 0) return false;
    lseek(mfd, 0, SEEK_SET);
    int saved = dup(1);
    dup2(mfd, 1);
    bool r = binson_parser_print(p);
    fflush(stdout);
    dup2(saved, 1);
    close(saved);
    off_t n = lseek(mfd, 0, SEEK_CUR);
    out.resize((size_t)n);
    if (n > 0 && pread(mfd, &out[0], (size_t)n, 0) != n) return false;
    return r;
}

struct ToStr {
    bool ret;
    size_t size;
    std::string text;  // content up to the first NUL (only if capacity > 0)
    bool nul_in_block;
};

static bool g_nice = false;  // the `nice` argument is documented nowhere and ignored by the code: both values must behave alike

static ToStr to_string_cap(binson_parser *p, size_t cap, bool null_buf) {
    Block dst(null_buf ? 0 : cap);
    dst.fill(0xAB);
    size_t sz = null_buf ? 12345 : cap;
    ToStr r;
    r.ret = binson_parser_to_string(p, null_buf ? nullptr : (char *)dst.p, &sz, g_nice);
    r.size = sz;
    r.nul_in_block = false;
    if (!null_buf) {
        for (size_t i = 0; i < dst.n; i++) if (dst.p[i] == 0) { r.nul_in_block = true; r.text.assign((const char *)dst.p, i); break; }
    }
    return r;
}

static void check14(const Bytes &doc, const Value &tree, bool arr, unsigned depth, const std::string &what) {
    PBox pb;
    pb.make(depth, nullptr, 0, 0);
    pb.set_input(doc);
    if (!pb.init(arr)) VH_FAIL("C14/init/ret=false", "init rejected a valid document %s", what.c_str());
    std::string want = ref::render(tree);
    ToStr q = to_string_cap(pb.p, 0, true);
    if (q.ret) VH_FAIL("C14/to_string/null-returned-true", "NULL query returned true %s", what.c_str());
    size_t need = q.size;
    ToStr r = to_string_cap(pb.p, need, false);
    if (!r.ret) VH_FAIL("C14/to_string/ret=false", "to_string with the reported size %zu failed; %s", need, what.c_str());
    if (r.text != want) {
        // name the kind of difference: separator problems get their own signature
        std::string kind = "text";
        std::string a = r.text, b = want;
        size_t i = 0;
        while (i < a.size() && i < b.size() && a[i] == b[i]) i++;
        if ((i < b.size() && b[i] == ',') || (i < a.size() && a[i] == ',')) kind = "separator";
        VH_FAIL("C14/to_string/" + kind, "to_string text differs at %zu:\n  lib: %s\n  ref: %s\n  %s", i, printable(r.text).c_str(), printable(want).c_str(), what.c_str());
    }
    std::string pr;
    bool pret = capture_print(pb.p, pr);
    if (!pret) VH_FAIL("C14/print/ret=false", "print returned false on a valid document; %s", what.c_str());
    if (pr != want) {
        std::string kind = "text";
        size_t i = 0;
        while (i < pr.size() && i < want.size() && pr[i] == want[i]) i++;
        if ((i < want.size() && want[i] == ',') || (i < pr.size() && pr[i] == ',')) kind = "separator";
        VH_FAIL("C14/print/" + kind, "print output differs at %zu:\n  lib: %s\n  ref: %s\n  %s", i, printable(pr).c_str(), printable(want).c_str(), what.c_str());
    }
    if (!pb.input_intact()) VH_FAIL("C14/input-modified", "input modified");
}

static void check13(const Bytes &doc, bool arr, unsigned depth, Src &s, const std::string &what) {
    Stats &st = stats();
    ref::Rec rec = ref::recognise(doc.data(), doc.size(), arr, depth, false);
    PBox pb;
    pb.make(depth, nullptr, 0, 0);
    pb.set_input(doc);
    bool init_ok = pb.init(arr);
    if (!init_ok) {
        // a rejected init leaves an error behind; to_string must still refuse cleanly
        st.label("init-rejected");
        for (size_t c : {(size_t)0, (size_t)1, (size_t)64}) {
            ToStr r = to_string_cap(pb.p, c, false);
            if (r.ret) VH_FAIL("C13/invalid/ret=true", "to_string returned true after a rejected init; %s", what.c_str());
        }
        return;
    }
    if (!rec.ok) {
        st.label("invalid-document");
        size_t caps[] = {0, 1, 2, (size_t)s.u8(), (size_t)s.u16() % 2048, 4096};
        for (size_t c : caps) {
            ToStr r = to_string_cap(pb.p, c, false);
            if (r.ret) VH_FAIL("C13/invalid/ret=true", "to_string returned true for an invalid document (capacity %zu); %s", c, what.c_str());
            st.count("calls");
        }
        ToStr r = to_string_cap(pb.p, 0, true);
        if (r.ret) VH_FAIL("C13/invalid/ret=true", "to_string(NULL) returned true for an invalid document; %s", what.c_str());
        st.nontrivial(mix(fnv(doc.data(), doc.size()), 0xbad));
        return;
    }
    st.label("valid-document");
    ToStr q = to_string_cap(pb.p, 0, true);
    if (q.ret) VH_FAIL("C13/null/ret=true", "NULL query returned true; %s", what.c_str());
    size_t need = q.size;
    if (need == 0) VH_FAIL("C13/null/size=0", "NULL query reported 0 bytes; %s", what.c_str());
    // reference text for the exact need (full text)
    ToStr full = to_string_cap(pb.p, need, false);
    if (!full.ret) VH_FAIL("C13/exact/ret=false", "capacity == reported size %zu failed (size out %zu); %s", need, full.size, what.c_str());
    if (full.size != need - 1) VH_FAIL("C13/exact/size", "capacity == need: *size=%zu expected %zu; %s", full.size, need - 1, what.c_str());
    if (!full.nul_in_block || full.text.size() != need - 1) VH_FAIL("C13/exact/terminator", "text length %zu / NUL missing, expected %zu; %s", full.text.size(), need - 1, what.c_str());
    // capacities to try
    std::vector<size_t> caps, blockcaps;
    if (need <= 600) {
        for (size_t c = 0; c <= need + 3; c++) caps.push_back(c);
    } else {
        for (size_t c = 0; c < 4; c++) caps.push_back(c);
        for (size_t c = need - 4; c <= need + 3; c++) caps.push_back(c);
        // around every structural character of the text
        size_t stride = full.text.size() / 150 + 1, k = 0;
        for (size_t i = 0; i < full.text.size(); i++) {
            char ch = full.text[i];
            if (ch == ',' || ch == '"' || ch == ':' || ch == '[' || ch == ']' || ch == '{' || ch == '}' || ch == 'x') {
                if ((k++ % stride) == 0) { caps.push_back(i); caps.push_back(i + 1); caps.push_back(i + 2); }
            }
        }
        for (int i = 0; i < 16; i++) caps.push_back(s.u32() % (need + 4));
        caps.push_back(need * 2);
        // block boundaries: every multiple of 16384 characters after the start of each of the first structural characters (+-1)
        {
            size_t seenp = 0;
            for (size_t i = 0; i < full.text.size() && seenp < 8; i++) {
                char ch = full.text[i];
                if (ch == 'x' || ch == '"' || ch == '[' || ch == ':' || ch == ',') {
                    seenp++;
                    for (size_t m = 16384; i + 1 + m < need + 2; m += 16384) { blockcaps.push_back(i + m); blockcaps.push_back(i + 1 + m); blockcaps.push_back(i + 2 + m); }
                }
            }
        }
    }
    if (need > 20000 && caps.size() > 160) {
        // very large texts: every call costs milliseconds under ASan; keep the ends, the block boundaries and an even sample
        std::vector<size_t> keep;
        size_t stride = caps.size() / 120 + 1;
        for (size_t i = 0; i < caps.size(); i++)
            if (i % stride == 0 || caps[i] + 8 >= need || caps[i] < 4) keep.push_back(caps[i]);
        caps = keep;
    }
    caps.insert(caps.end(), blockcaps.begin(), blockcaps.end());
    // sufficient capacities that leave exactly 2^8, 2^15 or 2^16 (+-1) bytes of room at one of the first structural characters
    {
        size_t seenp = 0;
        for (size_t i = 0; i < full.text.size() && seenp < 4; i++) {
            char ch = full.text[i];
            if (ch == ',' || ch == '[' || ch == ':' || ch == 'x') {
                seenp++;
                static const size_t rooms[] = {256, 32768, 65536, 65537};
                for (size_t rm : rooms) if (i + rm >= need) caps.push_back(i + rm);
            }
        }
    }
    for (size_t c : caps) {
        ToStr r = to_string_cap(pb.p, c, false);
        st.count("calls");
        if (!st.quiet) st.evaluations++;  // one evaluation per (document, capacity) pair
        if (c < need) {
            if (r.ret) VH_FAIL("C13/small/ret=true", "capacity %zu < need %zu returned true; %s", c, need, what.c_str());
            if (r.size != need) VH_FAIL("C13/small/size", "capacity %zu: *size=%zu expected %zu; %s", c, r.size, need, what.c_str());
            if (c > 0) st.nontrivial(mix(fnv(doc.data(), doc.size()), c));
        } else {
            if (!r.ret) VH_FAIL("C13/enough/ret=false", "capacity %zu >= need %zu returned false; %s", c, need, what.c_str());
            if (r.size != need - 1) VH_FAIL("C13/enough/size", "capacity %zu: *size=%zu expected %zu; %s", c, r.size, need - 1, what.c_str());
            if (!r.nul_in_block || r.text != full.text) VH_FAIL("C13/enough/text", "capacity %zu: text differs from the exact-size text; %s", c, what.c_str());
        }
    }
    if (need > 300) st.label("need>300");
    if (!pb.input_intact()) VH_FAIL("C13/input-modified", "input modified");
}

static const char *kName = "text";

static void run_case(Src &s) {
    DocCase c = decode_doc(s, opts());
    g_nice = (c.doc.size() & 1) != 0;
    std::string what = fmt("root=%s max_depth=%u doc=%s", c.array_root ? "array" : "object", c.depth, ref::hex(c.doc, 200).c_str());
    Stats &st = stats();
    if (is13()) {
        check13(c.doc, c.array_root, c.depth, s, what);
        if (st.want_sample("case", 3)) st.sample("case", what.substr(0, 300));
        return;
    }
    ref::Rec rec = ref::recognise(c.doc.data(), c.doc.size(), c.array_root, c.depth, true);
    if (!rec.ok) { st.label("skipped:not-a-valid-document"); return; }
    check14(c.doc, rec.root, c.array_root, c.depth, what);
    // classification: siblings and nesting
    struct W {
        static void go(const Value &v, bool &sib, bool &nest, bool &empty_first, unsigned depth) {
            if (v.c.size() >= 2) sib = true;
            if (depth >= 1 && v.is_container()) nest = true;
            for (size_t i = 0; i + 1 < v.c.size(); i++) if (v.c[i].is_container() && v.c[i].c.empty()) empty_first = true;
            for (auto &x : v.c) go(x, sib, nest, empty_first, depth + 1);
        }
    };
    bool sib = false, nest = false, ef = false;
    W::go(rec.root, sib, nest, ef, 0);
    if (sib && nest) st.nontrivial(fnv(c.doc.data(), c.doc.size()));
    if (ef) st.label("empty-container-followed-by-sibling");
    if (sib) st.label("siblings");
    if (nest) st.label("nested-container");
    const char *cl = (sib && nest) ? "non-trivial" : "trivial";
    if (st.want_sample(cl, 3)) st.sample(cl, what.substr(0, 200) + " -> " + printable(ref::render(rec.root), 200));
}

static void describe_case(Src &s, FILE *out) {
    DocCase c = decode_doc(s, opts());
    fprintf(out, "%s\n", describe_doc(c).c_str());
    ref::Rec rec = ref::recognise(c.doc.data(), c.doc.size(), c.array_root, c.depth, true);
    if (rec.ok) fprintf(out, "  reference text: %s\n", printable(ref::render(rec.root), 600).c_str());
    else fprintf(out, "  reference: invalid document\n");
}

#define VH_HAS_WRAP
static size_t wrap_raw(const uint8_t *doc, size_t n, unsigned variant, uint8_t *out, size_t cap) { return wrap_raw_doc(doc, n, is13() ? variant : 8u, out, cap); }

// all small trees: every combination of empty/non-empty object/array as first, middle, last sibling
#define VH_HAS_ENUM
static int enumerate(int shard, int nshards, const char *tier) {
    unsigned N = (tier && !strcmp(tier, "thorough")) ? 7 : 6;
    if (const char *e = getenv("VH_ENUM_N")) N = (unsigned)atoi(e);
    Shapes shp(N);
    std::vector<std::string> shapes = shp.roots(N);
    Stats &st = stats();
    for (size_t ti = 0; ti < shapes.size(); ti++) {
        if ((int)(ti % (size_t)nshards) != shard) continue;
        Value tree;
        parse_shape(shapes[ti], 0, tree);
        Bytes doc = ref::encode(tree);
        bool arr = tree.k == ref::K_ARR;
        unsigned depth = need_depth(tree, arr);
        try {
            if (is13()) { Src none(nullptr, 0); check13(doc, arr, depth, none, shapes[ti]); }
            else check14(doc, tree, arr, depth, shapes[ti]);
        } catch (const Failure &) {
            std::vector<uint8_t> out(doc.size() + 8);
            unsigned dsel = depth <= 1 ? 0 : depth == 2 ? 1 : depth == 3 ? 2 : depth <= 10 ? 3 : 4;
            size_t n = wrap_raw_doc(doc.data(), doc.size(), (unsigned)arr | (dsel << 1), out.data(), out.size());
            vh_save_fail_case(out.data(), n);
            throw;
        }
        st.evaluations++;
        st.count("enum_trees");
        st.nontrivial(fnv(doc.data(), doc.size()));
    }
    st.counters["enum_max_nodes"] = N;
    // C14 integer sweep: q * 10^k + r for every digit-group size k = 1..18, q at every power of two (-1, 0, +1) that fits and
    // r with and without leading zeros in the low group (0, 5, 10^(k-1)-1, 10^(k-1), 10^k-1), both signs - where a hand-written
    // decimal formatter splits, pads and narrows. ~30 000 integers, eight per document.
    if (!is13() && shard == 0) {
        std::vector<int64_t> ints;
        uint64_t p10 = 1;
        for (unsigned k = 1; k <= 18; k++) {
            p10 *= 10;
            for (unsigned j = 0; j < 63; j++)
                for (int d = -1; d <= 1; d++) {
                    uint64_t q = (1ULL << j) + (uint64_t)(int64_t)d;
                    if (q == 0 || q > (uint64_t)INT64_MAX / p10) continue;
                    const uint64_t rs[] = {0, 5, p10 / 10 - 1, p10 / 10, p10 - 1};
                    for (uint64_t r : rs) {
                        uint64_t v = q * p10 + r;
                        if (v > (uint64_t)INT64_MAX) continue;
                        ints.push_back((int64_t)v);
                        ints.push_back(-(int64_t)v);
                    }
                }
        }
        for (size_t at = 0; at < ints.size(); at += 8) {
            Value tree;
            tree.k = ref::K_OBJ;
            for (size_t i = at; i < at + 8 && i < ints.size(); i++) {
                Value v;
                v.k = ref::K_INT;
                v.i = ints[i];
                v.has_name = true;
                v.name = Bytes(1, (uint8_t)('a' + (i - at)));
                tree.c.push_back(v);
            }
            Bytes doc = ref::encode(tree);
            try {
                check14(doc, tree, false, 1, fmt("integer sweep, first value %lld", (long long)ints[at]));
            } catch (const Failure &) {
                std::vector<uint8_t> out(doc.size() + 8);
                size_t n = wrap_raw_doc(doc.data(), doc.size(), 0u, out.data(), out.size());
                vh_save_fail_case(out.data(), n);
                throw;
            }
            st.evaluations++;
            st.count("int_sweep_docs");
            st.nontrivial(fnv(doc.data(), doc.size()));
        }
        st.counters["int_sweep_values"] = ints.size();
    }
    return 0;
}

#include "glue.hpp"
