// C08: a complete protocol-following traversal (any mix of entering, skipping,
// lookups, early leaves, raw extraction), driven only by the parser's own
// answers, ends "all calls successful and error NONE" iff verify accepts.
#include "doccase.hpp"

using namespace vh;

static DocOpts opts() {
    DocOpts o;
    o.cfg.max_nodes = 30;
    o.cfg.max_depth = 6;
    o.cfg.max_fan = 5;
    return o;
}

struct Strategy {
    PBox &pb;
    Src &s;
    bool arr;
    std::vector<std::string> log;
    bool keep_log;
    std::vector<std::pair<size_t, size_t>> skipped;  // byte ranges passed over without entering (measurement only)
    std::vector<Bytes> names;                        // names seen so far (lookup arguments)
    unsigned early_leaves = 0, skips = 0, raws = 0, lookups = 0, entered = 0;
    Block wbuf;
    binson_writer w;
    uint64_t ophash = 0;

    Strategy(PBox &p, Src &src, bool a, bool kl) : pb(p), s(src), arr(a), keep_log(kl) {
        wbuf.alloc(pb.input.n * 2 + 16);
        binson_writer_init(&w, wbuf.p, wbuf.n);
    }
    void note(const std::string &x) { if (keep_log) log.push_back(x); }
    void mark(size_t from) {
        size_t to = pb.p->buffer_used;
        if (to > from) skipped.push_back({from, to});
    }

    // returns the traversal's verdict
    bool run() {
        binson_parser *p = pb.p;
        std::vector<bool> st;  // true = object
        note(arr ? "go_into_array" : "go_into_object");
        if (!(arr ? binson_parser_go_into_array(p) : binson_parser_go_into_object(p))) return false;
        st.push_back(!arr);
        unsigned steps = 0;
        while (!st.empty()) {
            if (p->error_flags != BINSON_ERROR_NONE) return false;
            bool obj = st.back();
            uint8_t b = (steps++ < 3000) ? s.u8() : 0xff;
            ophash = mix(ophash, b);
            bool leave_now = (b >= 0xf0);            // early leave (also the fallback when the budget or the bytes run out: b == 0 means next)
            if (steps >= 3000) leave_now = true;
            if (leave_now) {
                size_t from = p->buffer_used;
                note(obj ? "leave_object" : "leave_array");
                bool r = obj ? binson_parser_leave_object(p) : binson_parser_leave_array(p);
                mark(from);
                if (b != 0xff || steps < 3000) early_leaves++;
                if (!r) return false;
                st.pop_back();
                continue;
            }
            bool got = false;
            if (obj && b >= 0xc0) {
                // lookup: a name seen so far, a neighbour of one, or bytes from the case
                Bytes name;
                uint8_t sel = s.u8();
                if (!names.empty() && (sel & 3) == 1) {
                    name = names[(sel >> 2) % names.size()];
                    if (sel & 0x80) name.push_back((uint8_t)(sel >> 2));
                } else if ((sel & 3) >= 2 && pb.input.n > 3) {
                    // a name the application "knows": read from the document bytes (any 0x14-prefixed chunk), the parser is not asked
                    size_t off = s.u16() % pb.input.n, n0 = pb.input.n;
                    for (size_t k = 0; k < n0; k++) {
                        size_t q = (off + k) % n0;
                        const uint8_t *d = pb.input.p;
                        if (d[q] == 0x14 && q + 1 < n0 && d[q + 1] < 0x80 && q + 2 + d[q + 1] <= n0) {
                            name.assign(d + q + 2, d + q + 2 + d[q + 1]);
                            break;
                        }
                        if (d[q] == 0x15 && q + 2 < n0) {
                            size_t l = d[q + 1] | ((size_t)d[q + 2] << 8);
                            if (l < 0x8000 && q + 3 + l <= n0) { name.assign(d + q + 3, d + q + 3 + l); break; }
                        }
                        if (d[q] == 0x16 && q + 4 < n0) {
                            size_t l = d[q + 1] | ((size_t)d[q + 2] << 8) | ((size_t)d[q + 3] << 16) | ((size_t)d[q + 4] << 24);
                            if (l <= 70000 && q + 5 + l <= n0) { name.assign(d + q + 5, d + q + 5 + l); break; }
                        }
                    }
                } else {
                    unsigned l = (sel >> 1) % 4;
                    for (unsigned i = 0; i < l; i++) name.push_back(s.u8());
                }
                Block nb(name.size());
                if (!name.empty()) memcpy(nb.p, name.data(), name.size());
                size_t from = p->buffer_used;
                note("field_with_length(<" + ref::hex(name, 8) + ">)");
                got = binson_parser_field_with_length(p, (const char *)nb.p, name.size());
                lookups++;
                // everything passed over except the found field itself counts as skipped (approximation: the whole range)
                mark(from);
                if (!got) {
                    if (p->error_flags != BINSON_ERROR_NONE) return false;
                    continue;  // a miss is a normal answer
                }
            } else {
                note("next");
                size_t from = p->buffer_used;
                got = binson_parser_next(p);
                // a pending container that this next passed over was skipped
                if (pending_) { mark(from); pending_ = false; skips++; }
                if (!got) {
                    if (p->error_flags != BINSON_ERROR_NONE) return false;
                    note(obj ? "leave_object" : "leave_array");
                    bool r = obj ? binson_parser_leave_object(p) : binson_parser_leave_array(p);
                    if (!r) return false;
                    st.pop_back();
                    continue;
                }
            }
            pending_ = false;
            // positioned on a value
            if (obj) {
                bbuf *n = binson_parser_get_name(p);
                if (n && names.size() < 64 && pb.inside(n)) names.push_back(Bytes(n->bptr, n->bptr + n->bsize));
            }
            binson_type t = binson_parser_get_type(p);
            if (t == BINSON_TYPE_OBJECT || t == BINSON_TYPE_ARRAY) {
                uint8_t c = s.u8() % 8;
                if (c < 4) {
                    note(t == BINSON_TYPE_OBJECT ? "go_into_object" : "go_into_array");
                    bool r = t == BINSON_TYPE_OBJECT ? binson_parser_go_into_object(p) : binson_parser_go_into_array(p);
                    if (!r) return false;
                    entered++;
                    st.push_back(t == BINSON_TYPE_OBJECT);
                } else if (c < 6) {
                    pending_ = true;  // skip: the next next()/lookup/leave passes over it
                } else if (c == 6) {
                    bbuf raw;
                    size_t from = p->buffer_used;
                    note("get_raw");
                    bool r = binson_parser_get_raw(p, &raw);
                    mark(from);
                    raws++;
                    if (!r) return false;
                } else {
                    size_t from = p->buffer_used;
                    if (binson_writer_get_counter(&w) > wbuf.n / 2) binson_writer_init(&w, wbuf.p, wbuf.n);
                    note("to_writer");
                    bool r = binson_parser_to_writer(p, &w);
                    mark(from);
                    raws++;
                    if (!r) return false;
                }
            }
        }
        return p->error_flags == BINSON_ERROR_NONE;
    }
    bool pending_ = false;
};

static const char *kName = "strict";

static void one(const DocCase &c, Src &s, bool keep_log, std::string *logout) {
    Stats &st = stats();
    const Bytes &doc = c.doc;
    ref::Rec rec = ref::recognise(doc.data(), doc.size(), c.array_root, c.depth, false);
    // verify on a fresh parser
    bool vok;
    {
        PBox v;
        v.make(c.depth, nullptr, 0, 0);
        v.set_input(doc);
        vok = v.init(c.array_root) && binson_parser_verify(v.p);
    }
    PBox pb;
    pb.make(c.depth, nullptr, 0, 0);
    pb.set_input(doc);
    bool init_ok = pb.init(c.array_root);
    std::string what = fmt("root=%s max_depth=%u doc(%zu)=%s", c.array_root ? "array" : "object", c.depth, doc.size(), ref::hex(doc, 200).c_str());
    if (!init_ok) {
        if (vok) VH_FAIL("C08/init-vs-verify", "init rejects but verify accepted; %s", what.c_str());
        st.label("init-rejected");
        return;
    }
    Strategy sg(pb, s, c.array_root, keep_log);
    bool verdict = sg.run();
    if (logout) { for (auto &l : sg.log) { *logout += l; *logout += "; "; } }
    if (verdict != vok) {
        std::string ops;
        for (auto &l : sg.log) { ops += l; ops += "; "; }
        VH_FAIL(fmt("C08/traversal=%d/verify=%d/%s", (int)verdict, (int)vok, rec.ok ? "valid" : rec.why),
                "traversal verdict %d (error %s) but verify says %d (reference: %s '%s' at %zu); ops: %s | %s", (int)verdict, err_name(pb.p->error_flags), (int)vok,
                rec.ok ? "valid" : "invalid", rec.why, rec.off, ops.c_str(), what.c_str());
    }
    if (vok != rec.ok) VH_FAIL("C08/verify-vs-reference", "verify %d reference %d; %s", (int)vok, (int)rec.ok, what.c_str());
    if (!pb.input_intact()) VH_FAIL("C08/input-modified", "input modified");
    bool nt = false;
    if (!rec.ok) {
        for (auto &r : sg.skipped) if (rec.off >= r.first && rec.off < r.second) nt = true;
        if (nt) st.label(std::string("defect-in-skipped-region:") + (rec.ob >= ref::OB_DEPTH_OBJ ? ref::obstacle_name(rec.ob) : rec.why));
        else st.label("invalid:defect-met-while-entering");
    } else {
        nt = sg.early_leaves > 0;
        st.label(nt ? "valid:with-early-leave" : "valid:plain");
    }
    if (nt) st.nontrivial(mix(fnv(doc.data(), doc.size()), sg.ophash));
    if (sg.raws) st.label("used-raw-extraction");
    if (sg.lookups) st.label("used-lookups");
    if (sg.skips) st.label("used-skip");
}

static void run_case(Src &s) {
    DocCase c = decode_doc(s, opts());
    for (auto &m : c.muts) stats().label(m);
    size_t at = s.i;
    try {
        for (int k = 0; k < 3; k++) one(c, s, false, nullptr);
    } catch (const Failure &) {
        Src s2(s.p, s.n);
        s2.i = at;
        for (int k = 0; k < 3; k++) one(c, s2, true, nullptr);
        throw;
    }
    Stats &st = stats();
    if (st.want_sample("case", 3)) {
        Src s2(s.p, s.n);
        s2.i = at;
        std::string l;
        bool q = st.quiet;
        st.quiet = true;
        try { one(c, s2, true, &l); } catch (...) {}
        st.quiet = q;
        st.sample("case", fmt("root=%s max_depth=%u doc=%s ops: %s", c.array_root ? "array" : "object", c.depth, ref::hex(c.doc, 64).c_str(), l.substr(0, 500).c_str()));
    }
}

static void describe_case(Src &s, FILE *out) {
    DocCase c = decode_doc(s, opts());
    fprintf(out, "%s\n", describe_doc(c).c_str());
    ref::Rec rec = ref::recognise(c.doc.data(), c.doc.size(), c.array_root, c.depth, false);
    fprintf(out, "  reference: %s (%s '%s' at %zu)\n", rec.ok ? "valid" : "invalid", ref::obstacle_name(rec.ob), rec.why, rec.off);
    for (int k = 0; k < 3; k++) {
        std::string l;
        try { one(c, s, true, &l); } catch (const Failure &f) { fprintf(out, "  strategy %d FAILS: %s\n", k, f.sig.c_str()); }
        fprintf(out, "  strategy %d ops: %s\n", k, l.c_str());
    }
}

#define VH_HAS_WRAP
static size_t wrap_raw(const uint8_t *doc, size_t n, unsigned variant, uint8_t *out, size_t cap) { return wrap_raw_doc(doc, n, variant, out, cap); }

#include "glue.hpp"
