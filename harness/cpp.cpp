// C15: the C++ Binson class - canonical serialize, lossless round trip, and
// deserialize of arbitrary bytes through all three overloads: returns normally
// iff verify (depth 10) accepts, otherwise throws a std::exception.
#include <exception>

#include "binson.hpp"
#include "doccase.hpp"

using namespace vh;

static DocOpts opts() {
    DocOpts o;
    o.cfg.max_nodes = 50;
    o.cfg.max_depth = 9;  // with the root: at most 10 nested objects
    o.cfg.max_fan = 6;
    o.force_object_root = true;
    o.rare_deep = 5;  // BinsonValue is copied by value on the way up: deserialising a 2500-level chain is quadratic
    return o;
}

// One case in four: a first field with the smallest possible name holding 880..1135 bytes, so that the rest of the
// document (nested containers included) lies around and beyond offset 1000, the size of serialize()'s first-try buffer
static void pad_first(DocCase &c, Src &s) {
    if (c.mode != DM_TREE || !c.have_tree || c.array_root) return;
    uint8_t sel = s.u8();
    if (sel % 4 != 1) return;
    if (!c.tree.c.empty() && c.tree.c[0].name.empty()) return;
    Value pad;
    pad.k = (sel & 4) ? ref::K_BYT : ref::K_STR;
    pad.has_name = true;
    pad.s.assign(880 + (size_t)s.u8(), (uint8_t)'p');
    c.tree.c.insert(c.tree.c.begin(), pad);
    c.doc = ref::encode(c.tree);
}

static BinsonValue to_bv(const Value &v, Src &order);

static Binson to_binson(const Value &obj, Src &order) {
    Binson b;
    // insertion order: a permutation chosen by the case bytes
    std::vector<size_t> idx(obj.c.size());
    for (size_t i = 0; i < idx.size(); i++) idx[i] = i;
    for (size_t i = idx.size(); i > 1; i--) std::swap(idx[i - 1], idx[order.below((uint32_t)i)]);
    for (size_t i : idx) {
        const Value &f = obj.c[i];
        b.put(std::string(f.name.begin(), f.name.end()), to_bv(f, order));
    }
    return b;
}

static BinsonValue to_bv(const Value &v, Src &order) {
    switch (v.k) {
    case ref::K_BOOL: return BinsonValue(v.b);
    case ref::K_INT: return BinsonValue((int64_t)v.i);
    case ref::K_DBL: { double d; memcpy(&d, &v.d, 8); return BinsonValue(d); }
    case ref::K_STR: return BinsonValue(std::string(v.s.begin(), v.s.end()));
    case ref::K_BYT: return BinsonValue(std::vector<uint8_t>(v.s.begin(), v.s.end()));
    case ref::K_OBJ: return BinsonValue(to_binson(v, order));
    default: {
        std::vector<BinsonValue> a;
        for (auto &e : v.c) a.push_back(to_bv(e, order));
        return BinsonValue(a);
    }
    }
}

static bool same(const BinsonValue &b, const Value &v, std::string &why);

static bool same_obj(const Binson &b, const Value &v, std::string &why) {
    size_t i = 0;
    for (auto it = b.begin(); it != b.end(); ++it, ++i) {
        if (i >= v.c.size()) { why = "extra field"; return false; }
        const Value &f = v.c[i];
        if (it->first != std::string(f.name.begin(), f.name.end())) { why = "field name/order"; return false; }
        if (!same(it->second, f, why)) return false;
    }
    if (i != v.c.size()) { why = "missing field"; return false; }
    return true;
}

static bool same(const BinsonValue &b, const Value &v, std::string &why) {
    switch (v.k) {
    case ref::K_BOOL: if (b.myType() != BinsonValue::Types::boolType || b.getBool() != v.b) { why = "bool"; return false; } return true;
    case ref::K_INT: if (b.myType() != BinsonValue::Types::intType || b.getInt() != v.i) { why = "int"; return false; } return true;
    case ref::K_DBL: {
        if (b.myType() != BinsonValue::Types::doubleType) { why = "double type"; return false; }
        double d = b.getDouble();
        uint64_t u;
        memcpy(&u, &d, 8);
        if (u != v.d) { why = "double bits"; return false; }
        return true;
    }
    case ref::K_STR: if (b.myType() != BinsonValue::Types::stringType || b.getString() != std::string(v.s.begin(), v.s.end())) { why = "string"; return false; } return true;
    case ref::K_BYT: if (b.myType() != BinsonValue::Types::binaryType || b.getBin() != std::vector<uint8_t>(v.s.begin(), v.s.end())) { why = "bytes"; return false; } return true;
    case ref::K_OBJ: if (b.myType() != BinsonValue::Types::objectType) { why = "object type"; return false; } return same_obj(b.getObject(), v, why);
    default: {
        if (b.myType() != BinsonValue::Types::arrayType) { why = "array type"; return false; }
        const std::vector<BinsonValue> &a = b.getArray();
        if (a.size() != v.c.size()) { why = "array size"; return false; }
        for (size_t i = 0; i < a.size(); i++) if (!same(a[i], v.c[i], why)) return false;
        return true;
    }
    }
}

enum { OV_VECTOR = 0, OV_PTR, OV_PARSER };
static const char *kOv[] = {"vector", "ptr_size", "parser"};

// returns 0 = returned normally, 1 = threw std::exception, 2 = threw something else
static int call_deserialize(Binson &b, int ov, const Bytes &doc, std::string &msg) {
    try {
        if (ov == OV_VECTOR) {
            std::vector<uint8_t> v(doc.begin(), doc.end());
            v.shrink_to_fit();
            b.deserialize(v);
        } else if (ov == OV_PTR) {
            Block in(doc);
            b.deserialize(in.p, in.n);
        } else {
            PBox pb;
            pb.make(10, nullptr, 0, 0);
            pb.set_input(doc);
            (void)binson_parser_init(pb.p, pb.input.p, pb.input.n);  // result ignored, as in the README
            b.deserialize(pb.p);
        }
        return 0;
    } catch (const std::exception &e) {
        msg = e.what();
        return 1;
    } catch (...) {
        return 2;
    }
}

static const char *kName = "cpp";

static void run_case(Src &s) {
    Stats &st = stats();
    DocCase c = decode_doc(s, opts());
    pad_first(c, s);
    std::string what = fmt("doc(%zu)=%s", c.doc.size(), ref::hex(c.doc, 160).c_str());
    ref::Rec rec = ref::recognise(c.doc.data(), c.doc.size(), false, 10, true);

    // --- arbitrary bytes through the three overloads
    for (int ov = 0; ov < 3; ov++) {
        Binson b;
        std::string msg;
        int r = call_deserialize(b, ov, c.doc, msg);
        if (r == 2) VH_FAIL(fmt("C15/deserialize-%s/non-std-exception", kOv[ov]), "threw something not derived from std::exception; %s", what.c_str());
        if ((r == 0) != rec.ok)
            VH_FAIL(fmt("C15/deserialize-%s/%s", kOv[ov], rec.ok ? "threw-on-valid" : "accepted-invalid"),
                    "deserialize %s (%s) but verify(depth 10) %s the bytes (%s at %zu); %s", r == 0 ? "returned normally" : "threw", msg.c_str(), rec.ok ? "accepts" : "rejects",
                    rec.why, rec.off, what.c_str());
        if (r == 0) {
            std::vector<uint8_t> out = b.serialize();
            if (out != c.doc) VH_FAIL(fmt("C15/reserialize-%s/bytes", kOv[ov]), "serialize(deserialize(bytes)) != bytes: got %s; %s", ref::hex(out, 160).c_str(), what.c_str());
            std::string why;
            if (!same_obj(b, rec.root, why)) VH_FAIL(fmt("C15/deserialize-%s/content/%s", kOv[ov], why.c_str()), "deserialized object differs from the decoded tree (%s); %s", why.c_str(), what.c_str());
        }
    }
    size_t pos = c.doc.size() >= 2 && c.doc.front() == 0x40 && c.doc.back() == 0x41;
    if (pos) st.nontrivial(mix(fnv(c.doc.data(), c.doc.size()), 1));
    st.label(rec.ok ? "bytes:valid" : (pos ? "bytes:invalid-init-accepts" : "bytes:init-rejects"));
    if (c.doc.empty()) st.label("bytes:empty");

    // --- value trees: build with put() in a generated order, serialize, compare, round trip
    if (rec.ok) {
        Src order(s.p + s.i, s.left());
        Binson b = to_binson(rec.root, order);
        std::vector<uint8_t> out = b.serialize();
        if (out != c.doc) VH_FAIL("C15/serialize/not-canonical", "serialize() of the tree built with put() differs from the canonical encoding: got %s; %s", ref::hex(out, 160).c_str(), what.c_str());
        PBox pb;
        pb.make(10, nullptr, 0, 0);
        pb.set_input(out.data(), out.size());
        if (!(pb.init(false) && binson_parser_verify(pb.p))) VH_FAIL("C15/serialize/not-verified", "verify rejects serialize() output; %s", what.c_str());
        Binson b2;
        b2.deserialize(out);
        std::string why;
        if (!same_obj(b2, rec.root, why)) VH_FAIL("C15/roundtrip/" + why, "deserialize(serialize(x)) != x (%s); %s", why.c_str(), what.c_str());
        // serialize(binson_writer*) into an exactly-sized buffer gives the same bytes
        Block wb(out.size());
        binson_writer w;
        binson_writer_init(&w, wb.p, wb.n);
        b.serialize(&w);
        if (w.error_flags != BINSON_ERROR_NONE || binson_writer_get_counter(&w) != out.size() || memcmp(wb.p, out.data(), out.size()) != 0)
            VH_FAIL("C15/serialize-writer/bytes", "serialize(writer) differs; %s", what.c_str());
        bool big = c.doc.size() > 1000;
        size_t depth = rec.root.depth();
        if (big || depth >= 3) st.nontrivial(mix(fnv(c.doc.data(), c.doc.size()), 2));
        if (big) st.label("tree:>1000-bytes");
        if (depth >= 3) st.label("tree:nesting>=3");
        bool special = false;
        struct W { static void go(const Value &v, bool &sp) { for (auto &x : v.c) { for (uint8_t ch : x.name) if (ch == 0 || ch >= 0x80) sp = true; go(x, sp); } } };
        W::go(rec.root, special);
        if (special) st.label("tree:key-with-0x00-or-0x80+");
    }
    // --- one object over a history: serialize, N modifications (N around powers of two), serialize again
    if (rec.ok && (c.doc.size() % 8) == 3) {
        static const unsigned counts[] = {1, 2, 255, 256, 257, 65535, 65536, 65537};
        unsigned N = counts[s.u8() % 8];
        Binson h;
        h.deserialize(c.doc.data(), c.doc.size());
        std::vector<uint8_t> first = h.serialize();
        if (first != c.doc) VH_FAIL("C15/history/first-serialize", "serialize() after deserialize differs; %s", what.c_str());
        for (unsigned i = 0; i < N; i++) h.put("k", BinsonValue((int64_t)i));
        Value want = rec.root;
        {
            Value kv; kv.k = ref::K_INT; kv.i = (int64_t)N - 1; kv.has_name = true; kv.name = Bytes{'k'};
            bool placed = false;
            for (auto &f : want.c) if (f.name == kv.name) { f = kv; placed = true; }
            if (!placed) {
                want.c.push_back(kv);
                std::sort(want.c.begin(), want.c.end(), [](const Value &a, const Value &b) { return ref::cmp_bytes(a.name, b.name) < 0; });
            }
        }
        std::vector<uint8_t> second = h.serialize();
        if (second != ref::encode(want)) VH_FAIL(fmt("C15/history/serialize-after-%u-puts", N), "serialize() after %u further put() calls does not reflect the object: got %s; %s", N, ref::hex(second, 120).c_str(), what.c_str());
        st.label("history:serialize-modify-serialize");
    }
    const char *cl = rec.ok ? "valid" : "invalid";
    if (st.want_sample(cl, 2)) st.sample(cl, what.substr(0, 300));
}

static void describe_case(Src &s, FILE *out) {
    DocCase c = decode_doc(s, opts());
    pad_first(c, s);
    fprintf(out, "%s\n", describe_doc(c).c_str());
    ref::Rec rec = ref::recognise(c.doc.data(), c.doc.size(), false, 10, true);
    fprintf(out, "  verify(depth 10) reference verdict: %s (%s at %zu)\n", rec.ok ? "valid" : "invalid", rec.why, rec.off);
}

#define VH_HAS_WRAP
static size_t wrap_raw(const uint8_t *doc, size_t n, unsigned variant, uint8_t *out, size_t cap) { (void)variant; return wrap_raw_doc(doc, n, 6u, out, cap); }

#include "glue.hpp"
