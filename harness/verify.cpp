// C02: init + binson_parser_verify accepts exactly the well-formed documents
// (reference recogniser), with the matching MAX_DEPTH_* code when nesting is
// the first obstacle.
#include "doccase.hpp"

using namespace vh;

static void verdict(const uint8_t *doc, size_t n, bool arr, unsigned depth, bool enumerated) {
    Stats &st = stats();
    st.count("verdicts");
    ref::Rec rec = ref::recognise(doc, n, arr, depth, false);
    PBox pb;
    pb.make(depth, nullptr, 0, 0);
    pb.set_input(doc, n);
    bool init_ok = pb.init(arr);
    bool ok = init_ok && binson_parser_verify(pb.p);
    int err = pb.p->error_flags;

    if (init_ok) {
        st.nontrivial(mix(mix(fnv(doc, n), depth), arr));
        if (!enumerated) {
            std::string l = rec.ok ? "valid" : std::string("invalid:") + (rec.ob >= ref::OB_DEPTH_OBJ ? ref::obstacle_name(rec.ob) : rec.why);
            st.label(l);
            if (st.want_sample(l, 1))
                st.sample(l, fmt("root=%s max_depth=%u doc=%s", arr ? "array" : "object", depth, ref::hex(doc, n, 48).c_str()));
        } else {
            st.count(rec.ok ? "enum_valid" : (rec.ob >= ref::OB_DEPTH_OBJ ? "enum_depth_first_obstacle" : "enum_invalid"));
        }
    } else if (!enumerated) {
        st.label("init-rejected");
    }
    VH_CHECK(pb.input_intact(), "C02/input-modified", "verify wrote to the input buffer");
    if (ok != rec.ok) {
        VH_FAIL(fmt("C02/verdict/lib=%d/ref=%d/%s", ok, rec.ok, rec.ok ? "valid" : rec.why),
                "library %s but reference says %s (obstacle %s '%s' at offset %zu); lib error=%s; root=%s max_depth=%u doc=%s",
                ok ? "accepts" : "rejects", rec.ok ? "valid" : "invalid", ref::obstacle_name(rec.ob), rec.why, rec.off, err_name(err),
                arr ? "array" : "object", depth, ref::hex(doc, n, 200).c_str());
    }
    if (!rec.ok && rec.ob == ref::OB_DEPTH_OBJ)
        VH_CHECK(err == BINSON_ERROR_MAX_DEPTH_OBJECT, "C02/code/depth-object", "object nesting is the first obstacle (offset %zu) but error=%s; root=%s max_depth=%u doc=%s",
                 rec.off, err_name(err), arr ? "array" : "object", depth, ref::hex(doc, n, 200).c_str());
    if (!rec.ok && rec.ob == ref::OB_DEPTH_ARR)
        VH_CHECK(err == BINSON_ERROR_MAX_DEPTH_ARRAY, "C02/code/depth-array", "array nesting is the first obstacle (offset %zu) but error=%s; root=%s max_depth=%u doc=%s",
                 rec.off, err_name(err), arr ? "array" : "object", depth, ref::hex(doc, n, 200).c_str());
    if (ok) VH_CHECK(err == BINSON_ERROR_NONE, "C02/error-after-true-verify", "verify returned true with error=%s", err_name(err));
}

static DocOpts opts() {
    DocOpts o;
    o.cfg.max_nodes = 30;
    o.cfg.max_depth = 6;
    o.cfg.max_fan = 5;
    return o;
}

static const char *kName = "verify";

// trailing-bytes documents: a small well-formed base followed by `t` bytes of one of six fills
static const Bytes kTrailBases[] = {{0x40, 0x41}, {0x42, 0x43}, {0x40, 0x14, 0x01, 'a', 0x10, 0x01, 0x41}, {0x42, 0x10, 0x01, 0x42, 0x43, 0x40, 0x41, 0x43}};
static Bytes trailing_doc(unsigned bi, size_t t, unsigned fill) {
    const Bytes &base = kTrailBases[bi % 4];
    bool arr = base[0] == 0x42;
    Bytes doc = base;
    uint32_t x = (uint32_t)t * 2654435761u + 12345u;
    for (size_t i = 0; i < t; i++) {
        uint8_t c = 0;
        switch (fill % 6) {
        case 0: c = 0; break;
        case 1: c = 0x41; break;
        case 2: c = 0x43; break;
        case 3: c = base[i % base.size()]; break;
        default: x = x * 1664525u + 1013904223u; c = (uint8_t)(x >> 24); break;
        }
        doc.push_back(c);
    }
    if (t && fill % 6 >= 4) doc.back() = ((fill % 6 == 4) == arr) ? 0x43 : 0x41;
    return doc;
}
// literal case: AD [base][fill][root][depth selector][t: 3 bytes little endian]
static bool trailing_case(Src &s, FILE *out) {
    if (!(s.left() >= 8 && s.p[s.i] == 0xAD)) return false;
    s.u8();
    unsigned bi = s.u8(), fill = s.u8(), arr = s.u8() & 1, d = s.u8() % 5;
    size_t t = s.u8();
    t |= (size_t)s.u8() << 8;
    t |= (size_t)s.u8() << 16;
    if (t > 70000) t = 70000;
    Bytes doc = trailing_doc(bi, t, fill);
    if (out) fprintf(out, "trailing-bytes case: base %s + %zu bytes (fill %u), root=%s max_depth=%u\n", ref::hex(kTrailBases[bi % 4].data(), kTrailBases[bi % 4].size(), 16).c_str(), t, fill % 6, arr ? "array" : "object", kDepths[d]);
    else verdict(doc.data(), doc.size(), arr, kDepths[d], false);
    return true;
}

static void run_case(Src &s) {
    if (trailing_case(s, nullptr)) return;
    DocCase c = decode_doc(s, opts());
    for (auto &m : c.muts) stats().label(m);
    stats().label(fmt("mode:%u", c.mode));
    verdict(c.doc.data(), c.doc.size(), c.array_root, c.depth, false);
    // the same bytes through the other root kind (mostly an init rejection) - cheap second verdict
    if (s.flag()) verdict(c.doc.data(), c.doc.size(), !c.array_root, c.depth, false);
}

static void describe_case(Src &s, FILE *out) {
    if (trailing_case(s, out)) return;
    DocCase c = decode_doc(s, opts());
    fprintf(out, "%s\n", describe_doc(c).c_str());
    ref::Rec rec = ref::recognise(c.doc.data(), c.doc.size(), c.array_root, c.depth, false);
    fprintf(out, "  reference: %s (obstacle %s '%s' at %zu)\n", rec.ok ? "valid" : "invalid", ref::obstacle_name(rec.ob), rec.why, rec.off);
}

#define VH_HAS_WRAP
static size_t wrap_raw(const uint8_t *doc, size_t n, unsigned variant, uint8_t *out, size_t cap) { return wrap_raw_doc(doc, n, variant, out, cap); }

// ---------------------------------------------------------------------------
// Bounded-exhaustive: every sequence of up to L chunks from an alphabet that
// holds every token kind and every width boundary.
static std::vector<Bytes> alphabet() {
    std::vector<Bytes> a;
    auto add = [&](std::initializer_list<int> l) { Bytes b; for (int x : l) b.push_back((uint8_t)x); a.push_back(b); };
    add({0x40}); add({0x41}); add({0x42}); add({0x43});
    add({0x44}); add({0x45});
    add({0x46, 1, 2, 3, 4, 5, 6, 7, 8});
    add({0x10, 0x00}); add({0x10, 0x80});
    add({0x11, 0x80, 0x00}); add({0x11, 0x7f, 0xff}); add({0x11, 0x7f, 0x00});
    add({0x12, 0x00, 0x80, 0x00, 0x00}); add({0x12, 0xff, 0x7f, 0x00, 0x00});
    add({0x13, 0, 0, 0, 0x80, 0, 0, 0, 0}); add({0x13, 1, 0, 0, 0, 0, 0, 0, 0});
    add({0x14, 0x01, 'a'}); add({0x14, 0x01, 'b'}); add({0x14, 0x00});
    { Bytes b{0x15, 0x80, 0x00}; for (int i = 0; i < 128; i++) b.push_back('x'); a.push_back(b); }
    add({0x15, 0x01, 0x00, 'a'});
    add({0x14, 0xff});
    add({0x18, 0x01, 0x00});
    add({0x14});
    add({0x00}); add({0x17}); add({0x47});
    return a;
}

#define VH_HAS_ENUM
static int enumerate(int shard, int nshards, const char *tier) {
    unsigned L = 5;
    if (const char *e = getenv("VH_ENUM_L")) L = (unsigned)atoi(e);
    else if (tier && !strcmp(tier, "thorough")) L = 6;
    std::vector<Bytes> a = alphabet();
    const size_t A = a.size();
    uint64_t seqno = 0;
    Bytes doc, literal;
    try {
        for (unsigned len = 0; len <= L; len++) {
            uint64_t total = 1;
            for (unsigned i = 0; i < len; i++) total *= A;
            std::vector<unsigned> idx(len, 0);
            for (uint64_t k = 0; k < total; k++, seqno++) {
                if ((seqno % (uint64_t)nshards) == (uint64_t)shard) {
                    uint64_t x = k;
                    for (unsigned i = 0; i < len; i++) { idx[i] = (unsigned)(x % A); x /= A; }
                    for (int wrap = 0; wrap < 3; wrap++) {
                        doc.clear();
                        if (wrap == 0) doc.push_back(0x40);
                        if (wrap == 1) doc.push_back(0x42);
                        for (unsigned i = 0; i < len; i++) doc.insert(doc.end(), a[idx[i]].begin(), a[idx[i]].end());
                        if (wrap == 0) doc.push_back(0x41);
                        if (wrap == 1) doc.push_back(0x43);
                        for (int arr = 0; arr < 2; arr++)
                            for (unsigned d = 0; d < 5; d++) verdict(doc.data(), doc.size(), arr, kDepths[d], true);
                    }
                    stats().count("enum_sequences");
                }
            }
        }
        // trailing-bytes sweep: a well-formed document followed by T more bytes is never well-formed. T and the total size at
        // every width boundary (2^7, 2^8, 2^15, 2^16 -1/0/+1, 70000), the tail filled with zeros, END bytes of either kind,
        // a second copy of the document, or pseudo-random bytes ending in the root's END byte; the bare document must pass.
        if (shard == 0) {
            std::vector<size_t> tails;
            for (size_t b : {(size_t)128, (size_t)256, (size_t)32768, (size_t)65536})
                for (int d = -9; d <= 2; d++) tails.push_back(b + (size_t)d);
            for (size_t t : {(size_t)1, (size_t)2, (size_t)3, (size_t)4, (size_t)1000, (size_t)69990, (size_t)70000}) tails.push_back(t);
            for (unsigned bi = 0; bi < 4; bi++) {
                for (size_t t : tails)
                    for (unsigned fill = 0; fill < 6; fill++) {
                        for (unsigned a = 0; a < 2; a++)
                            for (unsigned d = 0; d < 5; d++) {
                                uint8_t cs[8] = {0xAD, (uint8_t)bi, (uint8_t)fill, (uint8_t)a, (uint8_t)d, (uint8_t)(t & 0xff), (uint8_t)((t >> 8) & 0xff), (uint8_t)(t >> 16)};
                                literal.assign(cs, cs + 8);
                                Src ls(cs, 8);
                                run_case(ls);
                                literal.clear();
                            }
                        stats().count("trailing_sweep_docs");
                    }
                verdict(kTrailBases[bi].data(), kTrailBases[bi].size(), kTrailBases[bi][0] == 0x42, 10, true);
            }
        }
    } catch (const Failure &f) {
        // express the failing verdict as a raw-mode case so that it can be replayed / shrunk like any other
        // (the failing (root, depth) pair is recovered by trying all ten on replay: store the doc only)
        if (!literal.empty()) { vh_save_fail_case(literal.data(), literal.size()); throw f; }
        if (const char *path = getenv("VH_FAIL")) {
            // find the failing configuration again
            for (int arr = 0; arr < 2; arr++)
                for (unsigned d = 0; d < 5; d++) {
                    bool bad = false;
                    stats().quiet = true;
                    try { verdict(doc.data(), doc.size(), arr, kDepths[d], true); } catch (const Failure &) { bad = true; }
                    if (bad) {
                        std::vector<uint8_t> out(doc.size() + 8);
                        size_t n = wrap_raw_doc(doc.data(), doc.size(), (unsigned)arr | (d << 1), out.data(), out.size());
                        FILE *fp = fopen(path, "wb");
                        if (fp) { fwrite(out.data(), 1, n, fp); fclose(fp); }
                        throw f;
                    }
                }
        }
        throw f;
    }
    stats().counters["enum_L"] = L;
    stats().evaluations += stats().counters["verdicts"];
    return 0;
}

#include "glue.hpp"
