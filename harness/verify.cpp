// C02: init + binson_parser_verify accepts exactly the well-formed documents
// (reference recogniser), with the matching MAX_DEPTH_* code when nesting is
// the first obstacle.
#include "doccase.hpp"

using namespace vh;

static void verdict(const uint8_t *doc, size_t n, bool arr, unsigned depth, bool enumerated) {
    Stats &st = stats();
    st.count("verdicts");
    ref::Rec rec = ref::recognise(doc, n, arr, depth, false);
    PBox pb;
    pb.make(depth, nullptr, 0, 0);
    pb.set_input(doc, n);
    bool init_ok = pb.init(arr);
    bool ok = init_ok && binson_parser_verify(pb.p);
    int err = pb.p->error_flags;

    if (init_ok) {
        st.nontrivial(mix(mix(fnv(doc, n), depth), arr));
        if (!enumerated) {
            std::string l = rec.ok ? "valid" : std::string("invalid:") + (rec.ob >= ref::OB_DEPTH_OBJ ? ref::obstacle_name(rec.ob) : rec.why);
            st.label(l);
            if (st.want_sample(l, 1))
                st.sample(l, fmt("root=%s max_depth=%u doc=%s", arr ? "array" : "object", depth, ref::hex(doc, n, 48).c_str()));
        } else {
            st.count(rec.ok ? "enum_valid" : (rec.ob >= ref::OB_DEPTH_OBJ ? "enum_depth_first_obstacle" : "enum_invalid"));
        }
    } else if (!enumerated) {
        st.label("init-rejected");
    }
    VH_CHECK(pb.input_intact(), "C02/input-modified", "verify wrote to the input buffer");
    if (ok != rec.ok) {
        VH_FAIL(fmt("C02/verdict/lib=%d/ref=%d/%s", ok, rec.ok, rec.ok ? "valid" : rec.why),
                "library %s but reference says %s (obstacle %s '%s' at offset %zu); lib error=%s; root=%s max_depth=%u doc=%s",
                ok ? "accepts" : "rejects", rec.ok ? "valid" : "invalid", ref::obstacle_name(rec.ob), rec.why, rec.off, err_name(err),
                arr ? "array" : "object", depth, ref::hex(doc, n, 200).c_str());
    }
    if (!rec.ok && rec.ob == ref::OB_DEPTH_OBJ)
        VH_CHECK(err == BINSON_ERROR_MAX_DEPTH_OBJECT, "C02/code/depth-object", "object nesting is the first obstacle (offset %zu) but error=%s; root=%s max_depth=%u doc=%s",
                 rec.off, err_name(err), arr ? "array" : "object", depth, ref::hex(doc, n, 200).c_str());
    if (!rec.ok && rec.ob == ref::OB_DEPTH_ARR)
        VH_CHECK(err == BINSON_ERROR_MAX_DEPTH_ARRAY, "C02/code/depth-array", "array nesting is the first obstacle (offset %zu) but error=%s; root=%s max_depth=%u doc=%s",
                 rec.off, err_name(err), arr ? "array" : "object", depth, ref::hex(doc, n, 200).c_str());
    if (ok) VH_CHECK(err == BINSON_ERROR_NONE, "C02/error-after-true-verify", "verify returned true with error=%s", err_name(err));
}

static DocOpts opts() {
    DocOpts o;
    o.cfg.max_nodes = 30;
    o.cfg.max_depth = 6;
    o.cfg.max_fan = 5;
    return o;
}

static const char *kName = "verify";

static void run_case(Src &s) {
    DocCase c = decode_doc(s, opts());
    for (auto &m : c.muts) stats().label(m);
    stats().label(fmt("mode:%u", c.mode));
    verdict(c.doc.data(), c.doc.size(), c.array_root, c.depth, false);
    // the same bytes through the other root kind (mostly an init rejection) - cheap second verdict
    if (s.flag()) verdict(c.doc.data(), c.doc.size(), !c.array_root, c.depth, false);
}

static void describe_case(Src &s, FILE *out) {
    DocCase c = decode_doc(s, opts());
    fprintf(out, "%s\n", describe_doc(c).c_str());
    ref::Rec rec = ref::recognise(c.doc.data(), c.doc.size(), c.array_root, c.depth, false);
    fprintf(out, "  reference: %s (obstacle %s '%s' at %zu)\n", rec.ok ? "valid" : "invalid", ref::obstacle_name(rec.ob), rec.why, rec.off);
}

#define VH_HAS_WRAP
static size_t wrap_raw(const uint8_t *doc, size_t n, unsigned variant, uint8_t *out, size_t cap) { return wrap_raw_doc(doc, n, variant, out, cap); }

// ---------------------------------------------------------------------------
// Bounded-exhaustive: every sequence of up to L chunks from an alphabet that
// holds every token kind and every width boundary.
static std::vector<Bytes> alphabet() {
    std::vector<Bytes> a;
    auto add = [&](std::initializer_list<int> l) { Bytes b; for (int x : l) b.push_back((uint8_t)x); a.push_back(b); };
    add({0x40}); add({0x41}); add({0x42}); add({0x43});
    add({0x44}); add({0x45});
    add({0x46, 1, 2, 3, 4, 5, 6, 7, 8});
    add({0x10, 0x00}); add({0x10, 0x80});
    add({0x11, 0x80, 0x00}); add({0x11, 0x7f, 0xff}); add({0x11, 0x7f, 0x00});
    add({0x12, 0x00, 0x80, 0x00, 0x00}); add({0x12, 0xff, 0x7f, 0x00, 0x00});
    add({0x13, 0, 0, 0, 0x80, 0, 0, 0, 0}); add({0x13, 1, 0, 0, 0, 0, 0, 0, 0});
    add({0x14, 0x01, 'a'}); add({0x14, 0x01, 'b'}); add({0x14, 0x00});
    { Bytes b{0x15, 0x80, 0x00}; for (int i = 0; i < 128; i++) b.push_back('x'); a.push_back(b); }
    add({0x15, 0x01, 0x00, 'a'});
    add({0x14, 0xff});
    add({0x18, 0x01, 0x00});
    add({0x14});
    add({0x00}); add({0x17}); add({0x47});
    return a;
}

#define VH_HAS_ENUM
static int enumerate(int shard, int nshards, const char *tier) {
    unsigned L = 5;
    if (const char *e = getenv("VH_ENUM_L")) L = (unsigned)atoi(e);
    else if (tier && !strcmp(tier, "thorough")) L = 6;
    std::vector<Bytes> a = alphabet();
    const size_t A = a.size();
    uint64_t seqno = 0;
    Bytes doc;
    try {
        for (unsigned len = 0; len <= L; len++) {
            uint64_t total = 1;
            for (unsigned i = 0; i < len; i++) total *= A;
            std::vector<unsigned> idx(len, 0);
            for (uint64_t k = 0; k < total; k++, seqno++) {
                if ((seqno % (uint64_t)nshards) == (uint64_t)shard) {
                    uint64_t x = k;
                    for (unsigned i = 0; i < len; i++) { idx[i] = (unsigned)(x % A); x /= A; }
                    for (int wrap = 0; wrap < 3; wrap++) {
                        doc.clear();
                        if (wrap == 0) doc.push_back(0x40);
                        if (wrap == 1) doc.push_back(0x42);
                        for (unsigned i = 0; i < len; i++) doc.insert(doc.end(), a[idx[i]].begin(), a[idx[i]].end());
                        if (wrap == 0) doc.push_back(0x41);
                        if (wrap == 1) doc.push_back(0x43);
                        for (int arr = 0; arr < 2; arr++)
                            for (unsigned d = 0; d < 5; d++) verdict(doc.data(), doc.size(), arr, kDepths[d], true);
                    }
                    stats().count("enum_sequences");
                }
            }
        }
    } catch (const Failure &f) {
        // express the failing verdict as a raw-mode case so that it can be replayed / shrunk like any other
        // (the failing (root, depth) pair is recovered by trying all ten on replay: store the doc only)
        if (const char *path = getenv("VH_FAIL")) {
            // find the failing configuration again
            for (int arr = 0; arr < 2; arr++)
                for (unsigned d = 0; d < 5; d++) {
                    bool bad = false;
                    stats().quiet = true;
                    try { verdict(doc.data(), doc.size(), arr, kDepths[d], true); } catch (const Failure &) { bad = true; }
                    if (bad) {
                        std::vector<uint8_t> out(doc.size() + 8);
                        size_t n = wrap_raw_doc(doc.data(), doc.size(), (unsigned)arr | (d << 1), out.data(), out.size());
                        FILE *fp = fopen(path, "wb");
                        if (fp) { fwrite(out.data(), 1, n, fp); fclose(fp); }
                        throw f;
                    }
                }
        }
        throw f;
    }
    stats().counters["enum_L"] = L;
    stats().evaluations += stats().counters["verdicts"];
    return 0;
}

#include "glue.hpp"
