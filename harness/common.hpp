// Shared harness plumbing: byte source for constructive decoding, counters,
// failure reporting, exactly-sized heap blocks.
#pragma once
#include <cstdarg>
#include <cstdint>
#include <cstdio>
#include <cstdlib>
#include <cstring>
#include <functional>
#include <map>
#include <string>
#include <unordered_set>
#include <vector>

#include "../ref/binson_ref.hpp"

namespace vh {

// ---------------------------------------------------------------------------
// Byte source.  Exhaustion yields zeros and sets `dry`; decoders treat "dry" as
// "stop / simplest alternative", so shorter inputs decode to smaller cases.
struct Src {
    const uint8_t *p;
    size_t n;
    size_t i = 0;
    Src(const uint8_t *data, size_t size) : p(data), n(size) {}
    bool dry() const { return i >= n; }
    size_t left() const { return n - i; }
    uint8_t u8() { return i < n ? p[i++] : 0; }
    uint16_t u16() { uint16_t a = u8(); return (uint16_t)(a | (u8() << 8)); }
    uint32_t u32() { uint32_t a = u16(); return a | ((uint32_t)u16() << 16); }
    uint64_t u64() { uint64_t a = u32(); return a | ((uint64_t)u32() << 32); }
    // value in [0,k) ; 0 when dry
    uint32_t below(uint32_t k) {
        if (k <= 1) return 0;
        if (k <= 256) return u8() % k;
        if (k <= 65536) return u16() % k;
        return u32() % k;
    }
    bool flag() { return (u8() & 1) != 0; }
    // take up to k raw bytes
    ref::Bytes take(size_t k) {
        size_t m = k < left() ? k : left();
        ref::Bytes b(p + i, p + i + m);
        i += m;
        return b;
    }
    ref::Bytes rest() { return take(left()); }
};

// ---------------------------------------------------------------------------
inline uint64_t fnv(const void *data, size_t n, uint64_t h = 1469598103934665603ULL) {
    const uint8_t *p = (const uint8_t *)data;
    for (size_t i = 0; i < n; i++) { h ^= p[i]; h *= 1099511628211ULL; }
    return h;
}
inline uint64_t mix(uint64_t h, uint64_t v) {
    h ^= v + 0x9e3779b97f4a7c15ULL + (h << 6) + (h >> 2);
    h *= 0xff51afd7ed558ccdULL;
    h ^= h >> 33;
    return h;
}

// ---------------------------------------------------------------------------
struct Failure {
    std::string sig;
    std::string detail;
};

inline std::string fmt(const char *f, ...) {
    char buf[2048];
    va_list ap;
    va_start(ap, f);
    vsnprintf(buf, sizeof buf, f, ap);
    va_end(ap);
    return buf;
}

#define VH_FAIL(sig, ...) throw ::vh::Failure{(sig), ::vh::fmt(__VA_ARGS__)}
#define VH_CHECK(cond, sig, ...) do { if (!(cond)) VH_FAIL(sig, __VA_ARGS__); } while (0)

// ---------------------------------------------------------------------------
struct Stats {
    uint64_t evaluations = 0;
    uint64_t nontrivial_hits = 0;
    std::unordered_set<uint64_t> nt;  // distinct non-trivial case hashes (capped)
    size_t nt_cap = 1u << 20;
    std::map<std::string, uint64_t> labels;
    std::map<std::string, std::vector<std::string>> samples;  // label -> few rendered cases
    std::map<std::string, uint64_t> counters;                 // free-form numeric extras
    bool quiet = false;                                       // set during shrinking / replay

    void label(const std::string &l) { if (!quiet) labels[l]++; }
    void count(const std::string &k, uint64_t by = 1) { if (!quiet) counters[k] += by; }
    void nontrivial(uint64_t h) {
        if (quiet) return;
        nontrivial_hits++;
        if (nt.size() < nt_cap) nt.insert(h);
    }
    bool want_sample(const std::string &l, size_t per = 2) {
        if (quiet) return false;
        auto it = samples.find(l);
        return it == samples.end() || it->second.size() < per;
    }
    void sample(const std::string &l, const std::string &text) { samples[l].push_back(text); }
};

inline Stats &stats() {
    static Stats *s = new Stats;  // leaked on purpose: must outlive atexit handlers
    return *s;
}

inline std::string json_escape(const std::string &s) {
    std::string o;
    for (unsigned char ch : s) {
        if (ch == '"' || ch == '\\') { o.push_back('\\'); o.push_back((char)ch); }
        else if (ch == '\n') o += "\\n";
        else if (ch < 0x20 || ch >= 0x7f) { char b[8]; snprintf(b, sizeof b, "\\u%04x", ch); o += b; }
        else o.push_back((char)ch);
    }
    return o;
}

// writes <path> (JSON) and <path>.nt (raw uint64 hashes)
inline void dump_stats(const char *path) {
    if (!path || !*path) return;
    Stats &s = stats();
    std::string tmp = std::string(path) + ".tmp";
    FILE *f = fopen(tmp.c_str(), "w");
    if (!f) return;
    fprintf(f, "{\"evaluations\":%llu,\"nontrivial_hits\":%llu,\"distinct_nontrivial_shard\":%zu,\"labels\":{",
            (unsigned long long)s.evaluations, (unsigned long long)s.nontrivial_hits, s.nt.size());
    bool first = true;
    for (auto &kv : s.labels) {
        fprintf(f, "%s\"%s\":%llu", first ? "" : ",", json_escape(kv.first).c_str(), (unsigned long long)kv.second);
        first = false;
    }
    fprintf(f, "},\"counters\":{");
    first = true;
    for (auto &kv : s.counters) {
        fprintf(f, "%s\"%s\":%llu", first ? "" : ",", json_escape(kv.first).c_str(), (unsigned long long)kv.second);
        first = false;
    }
    fprintf(f, "},\"samples\":{");
    first = true;
    for (auto &kv : s.samples) {
        fprintf(f, "%s\"%s\":[", first ? "" : ",", json_escape(kv.first).c_str());
        for (size_t i = 0; i < kv.second.size(); i++) fprintf(f, "%s\"%s\"", i ? "," : "", json_escape(kv.second[i]).c_str());
        fprintf(f, "]");
        first = false;
    }
    fprintf(f, "}}\n");
    fclose(f);
    rename(tmp.c_str(), path);
    std::string ntp = std::string(path) + ".nt";
    f = fopen(ntp.c_str(), "wb");
    if (f) {
        for (uint64_t h : s.nt) fwrite(&h, 8, 1, f);
        fclose(f);
    }
}

// ---------------------------------------------------------------------------
// Exactly-sized heap block (ASan redzones on both sides); size 0 is a real
// 0-byte allocation so even one byte of access traps.
struct Block {
    uint8_t *p = nullptr;
    size_t n = 0;
    Block() {}
    explicit Block(size_t size) { alloc(size); }
    Block(const uint8_t *src, size_t size) { alloc(size); if (size) memcpy(p, src, size); }
    explicit Block(const ref::Bytes &b) { alloc(b.size()); if (!b.empty()) memcpy(p, b.data(), b.size()); }
    void alloc(size_t size) { release(); n = size; p = (uint8_t *)malloc(size ? size : 0); if (!p) p = (uint8_t *)malloc(1), n = 0, zero_ = true; }
    void fill(uint8_t v) { if (n) memset(p, v, n); }
    void release() { if (p) free(p); p = nullptr; n = 0; }
    ~Block() { release(); }
    Block(const Block &) = delete;
    Block &operator=(const Block &) = delete;
   private:
    bool zero_ = false;
};

}  // namespace vh

// helper for enumerators: write a replayable case file for a failure
static inline void vh_save_fail_case(const uint8_t *data, size_t n) {
    if (const char *path = getenv("VH_FAIL")) {
        FILE *fp = fopen(path, "wb");
        if (fp) { fwrite(data, 1, n, fp); fclose(fp); }
    }
}

// ---------------------------------------------------------------------------
// Interface every harness TU implements (engines link against it).
extern "C" {
const char *vh_name(void);
// runs one case; 0 = property held, 1 = oracle failure (see vh_last_*)
int vh_run(const uint8_t *data, size_t size);
const char *vh_last_sig(void);
const char *vh_last_detail(void);
// prints the structured case (document hex, tree, op script ...) for replay
void vh_describe(const uint8_t *data, size_t size, FILE *out);
// wraps a raw document (e.g. a shipped corpus file) into a decoder input; variant selects root kind / depth etc.
size_t vh_wrap_raw(const uint8_t *doc, size_t n, unsigned variant, uint8_t *out, size_t cap);
// optional bounded-exhaustive enumeration; returns number of failures (0/1); harnesses without one return -1
int vh_enumerate(int shard, int nshards, const char *tier);
}
