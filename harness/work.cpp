// C16, second oracle: work measured as the number of control-flow edges executed
// inside the library (SanitizerCoverage trace-pc-guard, counted by this file - no
// sanitizer runtime, fully deterministic), on size-scaled families n, 2n, 4n:
// the increment from 2n to 4n must be at most ~2x the increment from n to 2n.
// A quadratic term makes it 4x.  Self-calibrating: no absolute constants about
// the code, so a refactoring that changes the per-token cost does not alarm.
#include "doccase.hpp"
#include "wops.hpp"

extern "C" {
uint64_t vh_edges = 0;
void __sanitizer_cov_trace_pc_guard_init(uint32_t *start, uint32_t *stop) {
    for (uint32_t *x = start; x < stop; x++) *x = 1;
}
void __sanitizer_cov_trace_pc_guard(uint32_t *) { vh_edges++; }
}

static const char *kName = "work";
static const char *kFam[] = {"verify(array of n)", "verify(object of n fields)", "n lookups (hits, ascending)", "n lookups (misses between)", "64 repeated misses before the first of n fields",
                             "verify(chain of n levels)", "next skipping a chain of n levels", "dive n levels then leave all", "16 misses after stopping on a container of n elements",
                             "lookups around a name of n bytes", "getters on a string of n bytes", "n name+integer writes", "to_string(array of n)", "get_raw/to_writer on n elements",
                             "early leave from an array of n", "full traversal of n fields"};
static const unsigned kNFam = 16;

static Value int_v(int64_t i) { Value v; v.k = ref::K_INT; v.i = i; return v; }

static Value obj_n(size_t n) {
    Value o; o.k = ref::K_OBJ;
    for (size_t i = 0; i < n; i++) { Value f = int_v((int64_t)i); f.has_name = true; f.name = Bytes{(uint8_t)(0x30 + (i >> 8)), (uint8_t)(i & 0xff)}; o.c.push_back(f); }
    return o;
}
static Value arr_n(size_t n) {
    Value a; a.k = ref::K_ARR;
    for (size_t i = 0; i < n; i++) a.c.push_back(int_v((int64_t)i - 3));
    return a;
}

// returns the number of library edges executed by the measured section of family f at size n
static uint64_t family(unsigned f, size_t n) {
    Value root;
    bool arr = false;
    unsigned depth = 4;
    Value chain;
    switch (f) {
    case 0: case 12: case 14: root = arr_n(n); arr = true; break;
    case 1: case 2: case 3: case 4: case 15: root = obj_n(n); break;
    case 5: case 6: case 7: {
        Src none(nullptr, 0);
        chain = gen_chain(none, (unsigned)n, false, 1);  // alternating object/array
        if (f == 5) root = chain;
        else { root.k = ref::K_OBJ; chain.has_name = true; chain.name = Bytes{'a'}; root.c.push_back(chain); Value z = int_v(1); z.has_name = true; z.name = Bytes{'z'}; root.c.push_back(z); }
        depth = (unsigned)n / 2 + 3;
        break;
    }
    case 8: case 13: { root.k = ref::K_OBJ; Value a = arr_n(n); a.has_name = true; a.name = Bytes{'a'}; root.c.push_back(a); Value k = int_v(1); k.has_name = true; k.name = Bytes{'k', 'k'}; root.c.push_back(k); break; }
    case 9: { root.k = ref::K_OBJ; Value a = int_v(1); a.has_name = true; a.name = Bytes(n, (uint8_t)'k'); root.c.push_back(a); Value b = int_v(2); b.has_name = true; b.name = Bytes(n, (uint8_t)'k'); b.name.push_back('x'); root.c.push_back(b); break; }
    case 10: { root.k = ref::K_ARR; arr = true; Value s; s.k = ref::K_STR; s.s = Bytes(n, (uint8_t)'s'); root.c.push_back(s); break; }
    case 11: break;
    default: break;
    }
    if (f == 11) {
        Block out(n * 14 + 16);
        binson_writer w;
        binson_writer_init(&w, out.p, out.n);
        uint64_t e0 = vh_edges;
        binson_write_object_begin(&w);
        for (size_t i = 0; i < n; i++) { char nm[2] = {(char)(0x30 + (i >> 8)), (char)(i & 0xff)}; binson_write_name_with_len(&w, nm, 2); binson_write_integer(&w, (int64_t)i * 1000); }
        binson_write_object_end(&w);
        uint64_t e = vh_edges - e0;
        if (w.error_flags != BINSON_ERROR_NONE) VH_FAIL("harness/work-writer", "writer error");
        return e;
    }
    Bytes doc = ref::encode(root);
    PBox pb;
    pb.make(depth > 255 ? 255 : depth, nullptr, 0, 0);
    pb.set_input(doc);
    binson_parser *p = pb.p;
    if (!pb.init(arr)) VH_FAIL("harness/work-init", "init failed for family %u n %zu", f, n);
    auto must = [&](bool ok, const char *what) { if (!ok || p->error_flags != BINSON_ERROR_NONE) VH_FAIL("harness/work-script", "family %u n %zu: %s failed (error %s)", f, n, what, err_name(p->error_flags)); };
    uint64_t e0 = vh_edges;
    switch (f) {
    case 0: case 1: case 5: must(binson_parser_verify(p), "verify"); break;
    case 2:
        must(binson_parser_go_into_object(p), "enter");
        for (auto &c : root.c) must(binson_parser_field_with_length(p, (const char *)c.name.data(), c.name.size()), "lookup hit");
        must(binson_parser_leave_object(p), "leave");
        break;
    case 3:
        must(binson_parser_go_into_object(p), "enter");
        for (size_t i = 0; i + 1 < root.c.size(); i++) { Bytes nm = root.c[i].name; nm.push_back(0); must(!binson_parser_field_with_length(p, (const char *)nm.data(), nm.size()), "lookup miss"); }
        must(binson_parser_leave_object(p), "leave");
        break;
    case 4: {
        must(binson_parser_go_into_object(p), "enter");
        Bytes nm{0x01};
        for (int i = 0; i < 64; i++) must(!binson_parser_field_with_length(p, (const char *)nm.data(), nm.size()), "lookup miss");
        must(binson_parser_leave_object(p), "leave");
        break;
    }
    case 6:
        must(binson_parser_go_into_object(p), "enter");
        must(binson_parser_next(p), "next");
        must(binson_parser_next(p), "next (skip)");
        must(binson_parser_leave_object(p), "leave");
        break;
    case 7: {
        std::vector<bool> st;
        must(binson_parser_go_into_object(p), "enter");
        st.push_back(true);
        for (;;) {
            if (!binson_parser_next(p)) break;
            binson_type t = binson_parser_get_type(p);
            if (t == BINSON_TYPE_OBJECT) { must(binson_parser_go_into_object(p), "enter"); st.push_back(true); }
            else if (t == BINSON_TYPE_ARRAY) { must(binson_parser_go_into_array(p), "enter"); st.push_back(false); }
            else break;
        }
        while (!st.empty()) { must(st.back() ? binson_parser_leave_object(p) : binson_parser_leave_array(p), "leave"); st.pop_back(); }
        break;
    }
    case 8: {
        must(binson_parser_go_into_object(p), "enter");
        must(binson_parser_next(p), "next");
        Bytes nm{'b'};
        for (int i = 0; i < 16; i++) must(!binson_parser_field_with_length(p, (const char *)nm.data(), nm.size()), "lookup miss");
        must(binson_parser_leave_object(p), "leave");
        break;
    }
    case 9: {
        must(binson_parser_go_into_object(p), "enter");
        Bytes pre(n ? n - 1 : 0, (uint8_t)'k'), hit(n, (uint8_t)'k'), after = hit;
        after.push_back(0);
        Block bp(pre), bh(hit), ba(after);
        for (int i = 0; i < 4; i++) must(!binson_parser_field_with_length(p, (const char *)bp.p, bp.n), "miss before");
        must(binson_parser_field_with_length(p, (const char *)bh.p, bh.n), "hit");
        for (int i = 0; i < 4; i++) must(!binson_parser_field_with_length(p, (const char *)ba.p, ba.n), "miss after");
        must(binson_parser_leave_object(p), "leave");
        break;
    }
    case 10: {
        must(binson_parser_go_into_array(p), "enter");
        must(binson_parser_next(p), "next");
        for (int i = 0; i < 8; i++) { (void)binson_parser_get_string_bbuf(p); (void)binson_parser_string_equals(p, "ss"); (void)binson_parser_get_integer(p); }
        must(binson_parser_leave_array(p), "leave");
        break;
    }
    case 12: {
#ifdef BINSON_PARSER_WITH_PRINT
        size_t sz = 0;
        binson_parser_to_string(p, nullptr, &sz, false);
        Block txt(sz);
        size_t cap = sz;
        must(binson_parser_to_string(p, (char *)txt.p, &cap, false), "to_string");
#endif
        break;
    }
    case 13: {
        must(binson_parser_go_into_object(p), "enter");
        must(binson_parser_next(p), "next");
        bbuf raw;
        must(binson_parser_get_raw(p, &raw), "get_raw");
        must(binson_parser_reset(p), "reset");
        must(binson_parser_go_into_object(p), "enter");
        must(binson_parser_next(p), "next");
        Block wb(doc.size());
        binson_writer w;
        binson_writer_init(&w, wb.p, wb.n);
        must(binson_parser_to_writer(p, &w), "to_writer");
        must(binson_parser_leave_object(p), "leave");
        break;
    }
    case 14:
        must(binson_parser_go_into_array(p), "enter");
        must(binson_parser_next(p), "next");
        must(binson_parser_leave_array(p), "leave");
        break;
    default:
        must(binson_parser_go_into_object(p), "enter");
        while (binson_parser_next(p)) { (void)binson_parser_get_name(p); (void)binson_parser_get_integer(p); }
        must(binson_parser_leave_object(p), "leave");
        break;
    }
    return vh_edges - e0;
}

static void scaling_case(unsigned f, size_t n) {
    uint64_t e1 = family(f, n), e2 = family(f, 2 * n), e4 = family(f, 4 * n);
    uint64_t d1 = e2 > e1 ? e2 - e1 : 0, d2 = e4 > e2 ? e4 - e2 : 0;
    // linear work: d2 ~ 2*d1; quadratic: d2 ~ 4*d1.  (2.6x + a constant allowance for small families)
    if (d2 * 10 > d1 * 26 + 3000)
        throw Failure{fmt("C16/work-not-linear/family-%u", f),
                      fmt("%s: library edges executed %llu / %llu / %llu at n = %zu / %zu / %zu: the second increment (%llu) is more than 2.6x the first (%llu)", kFam[f],
                          (unsigned long long)e1, (unsigned long long)e2, (unsigned long long)e4, n, 2 * n, 4 * n, (unsigned long long)d2, (unsigned long long)d1)};
    stats().counters[fmt("work_edges_max_family_%02u", f)] = std::max<uint64_t>(stats().counters[fmt("work_edges_max_family_%02u", f)], e4);
}

static void run_case(Src &s) {
    if (s.left() >= 4 && s.p[s.i] == 0xAB) {  // literal case written by the enumerator
        unsigned f = s.p[s.i + 1] % kNFam;
        size_t n = (size_t)s.p[s.i + 2] | ((size_t)s.p[s.i + 3] << 8);
        if (n < 4) n = 4;
        if (n > 1024) n = 1024;
        if ((f >= 5 && f <= 7) && n > 120) n = 120;
        scaling_case(f, n);
        return;
    }
    // random cases: family and size from the bytes
    unsigned f = s.u8() % kNFam;
    size_t n = 8 + s.u16() % 500;
    if ((f >= 5 && f <= 7) && n > 120) n = 8 + n % 112;
    scaling_case(f, n);
    stats().nontrivial(mix(0xAB, f * 4096 + n));
}

static void describe_case(Src &s, FILE *out) {
    if (s.left() >= 4 && s.p[s.i] == 0xAB) fprintf(out, "  work-scaling case: family %u (%s), n = %u\n", s.p[s.i + 1] % kNFam, kFam[s.p[s.i + 1] % kNFam], s.p[s.i + 2] | (s.p[s.i + 3] << 8));
    else fprintf(out, "  random work-scaling case\n");
}

#define VH_HAS_ENUM
static int enumerate(int shard, int nshards, const char *tier) {
    bool thorough = tier && !strcmp(tier, "thorough");
    Stats &st = stats();
    unsigned idx = 0;
    std::vector<size_t> ns = {16, 32, 64, 100, 128, 200, 256};
    if (thorough) { ns.push_back(400); ns.push_back(512); ns.push_back(1000); ns.push_back(1024); }
    for (unsigned f = 0; f < kNFam; f++)
        for (size_t n : ns) {
            if ((f >= 5 && f <= 7) && n > 120) continue;  // chains: 4n levels must stay within the nesting limits
            if ((int)(idx++ % (unsigned)nshards) != shard) continue;
            try {
                scaling_case(f, n);
            } catch (const Failure &) {
                uint8_t cs[4] = {0xAB, (uint8_t)f, (uint8_t)(n & 0xff), (uint8_t)(n >> 8)};
                vh_save_fail_case(cs, 4);
                throw;
            }
            st.evaluations++;
            st.count("enum_work_scaling_cases");
            st.nontrivial(mix(0xABAB, f * 4096 + n));
        }
    return 0;
}

#include "glue.hpp"
