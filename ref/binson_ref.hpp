// Independent reference model of the Binson format and of the binson-c-light
// cursor protocol.  Written from the specification (grammar in
// binson_defines.h, BINSON-SPEC-1) and the property texts; shares no code with
// /repo.  Deliberately simple, recursive and allocation-happy.
#pragma once
#include <algorithm>
#include <cinttypes>
#include <cstdint>
#include <cstdio>
#include <cstring>
#include <string>
#include <vector>

namespace ref {

typedef std::vector<uint8_t> Bytes;

enum Kind { K_NONE = 0, K_OBJ, K_ARR, K_BOOL, K_INT, K_DBL, K_STR, K_BYT };

inline const char *kind_name(Kind k) {
    switch (k) {
    case K_OBJ: return "object";
    case K_ARR: return "array";
    case K_BOOL: return "bool";
    case K_INT: return "int";
    case K_DBL: return "double";
    case K_STR: return "string";
    case K_BYT: return "bytes";
    default: return "none";
    }
}

struct Value {
    Kind k = K_NONE;
    bool b = false;
    int64_t i = 0;
    uint64_t d = 0;  // IEEE-754 bit pattern
    Bytes s;         // string / bytes payload
    bool has_name = false;
    Bytes name;
    std::vector<Value> c;  // fields (each has_name) or elements
    // spans inside the encoded document (filled by encode / recognise)
    size_t tb = 0, te = 0;    // value token [tb,te); containers: BEGIN..END inclusive
    size_t pb = 0;            // payload start of string/bytes (length s.size())
    size_t ntb = 0, npb = 0;  // name token start, name payload start

    bool is_container() const { return k == K_OBJ || k == K_ARR; }
    size_t nodes() const {
        size_t n = 1;
        for (auto &x : c) n += x.nodes();
        return n;
    }
    size_t depth() const {
        size_t m = 0;
        for (auto &x : c) m = std::max(m, x.depth());
        return is_container() ? m + 1 : 0;
    }
};

// bytewise order, shorter prefix first (the Binson field order)
inline int cmp_bytes(const Bytes &a, const Bytes &b) {
    size_t m = std::min(a.size(), b.size());
    for (size_t i = 0; i < m; i++) {
        if (a[i] != b[i]) return a[i] < b[i] ? -1 : 1;
    }
    if (a.size() == b.size()) return 0;
    return a.size() < b.size() ? -1 : 1;
}

inline int int_width(int64_t v) {
    if (v >= -128 && v <= 127) return 1;
    if (v >= -32768 && v <= 32767) return 2;
    if (v >= INT32_MIN && v <= INT32_MAX) return 4;
    return 8;
}

inline void put_int(Bytes &o, uint8_t base, int64_t v) {
    int w = int_width(v);
    o.push_back((uint8_t)(base + (w == 1 ? 0 : w == 2 ? 1 : w == 4 ? 2 : 3)));
    uint64_t u = (uint64_t)v;
    for (int i = 0; i < w; i++) o.push_back((uint8_t)(u >> (8 * i)));
}

inline void put_le64(Bytes &o, uint64_t u) {
    for (int i = 0; i < 8; i++) o.push_back((uint8_t)(u >> (8 * i)));
}

// ---------------------------------------------------------------------------
// Writer-call sequences (also ill-formed ones) and their reference encoding.

enum WKind { W_OBJ_B, W_OBJ_E, W_ARR_B, W_ARR_E, W_BOOL, W_INT, W_DBL, W_STR, W_NAME, W_BYTES, W_RAW, W_STR_C, W_NAME_C, W_TO_WRITER };
// W_TO_WRITER: s holds the bytes of one valid container; the call is binson_parser_to_writer with a parser positioned on it

struct WOp {
    WKind k = W_BOOL;
    bool b = false;
    int64_t i = 0;
    uint64_t d = 0;
    Bytes s;  // payload; for *_C forms must be NUL-free (C string)
};

struct Piece {
    size_t off, len;  // span in the full encoding
    size_t call;      // index of the write call
    bool payload;     // false: descriptor piece, true: payload piece
};

inline void encode_op(const WOp &op, size_t call, Bytes &o, std::vector<Piece> *pieces) {
    size_t b = o.size();
    auto piece = [&](size_t off, size_t len, bool pay) {
        if (pieces) pieces->push_back(Piece{off, len, call, pay});
    };
    switch (op.k) {
    case W_OBJ_B: o.push_back(0x40); piece(b, 1, false); break;
    case W_OBJ_E: o.push_back(0x41); piece(b, 1, false); break;
    case W_ARR_B: o.push_back(0x42); piece(b, 1, false); break;
    case W_ARR_E: o.push_back(0x43); piece(b, 1, false); break;
    case W_BOOL: o.push_back(op.b ? 0x44 : 0x45); piece(b, 1, false); break;
    case W_INT: put_int(o, 0x10, op.i); piece(b, o.size() - b, false); break;
    case W_DBL: o.push_back(0x46); put_le64(o, op.d); piece(b, 9, false); break;
    case W_STR:
    case W_NAME:
    case W_STR_C:
    case W_NAME_C:
    case W_BYTES: {
        put_int(o, op.k == W_BYTES ? 0x18 : 0x14, (int64_t)op.s.size());
        piece(b, o.size() - b, false);
        size_t pb = o.size();
        o.insert(o.end(), op.s.begin(), op.s.end());
        if (!op.s.empty()) piece(pb, op.s.size(), true);
        break;
    }
    case W_RAW:
    case W_TO_WRITER:
        o.insert(o.end(), op.s.begin(), op.s.end());
        piece(b, op.s.size(), false);  // raw is written as a single piece (also when empty)
        break;
    }
}

inline Bytes encode_ops(const std::vector<WOp> &ops, std::vector<Piece> *pieces = nullptr) {
    Bytes o;
    for (size_t i = 0; i < ops.size(); i++) encode_op(ops[i], i, o, pieces);
    return o;
}

inline void flatten(const Value &v, std::vector<WOp> &ops) {
    if (v.has_name) {
        WOp n;
        n.k = W_NAME;
        n.s = v.name;
        ops.push_back(n);
    }
    WOp op;
    switch (v.k) {
    case K_OBJ:
        op.k = W_OBJ_B; ops.push_back(op);
        for (auto &x : v.c) flatten(x, ops);
        op.k = W_OBJ_E; ops.push_back(op);
        break;
    case K_ARR:
        op.k = W_ARR_B; ops.push_back(op);
        for (auto &x : v.c) flatten(x, ops);
        op.k = W_ARR_E; ops.push_back(op);
        break;
    case K_BOOL: op.k = W_BOOL; op.b = v.b; ops.push_back(op); break;
    case K_INT: op.k = W_INT; op.i = v.i; ops.push_back(op); break;
    case K_DBL: op.k = W_DBL; op.d = v.d; ops.push_back(op); break;
    case K_STR: op.k = W_STR; op.s = v.s; ops.push_back(op); break;
    case K_BYT: op.k = W_BYTES; op.s = v.s; ops.push_back(op); break;
    default: break;
    }
}

// Canonical encoding of a tree; records every span in the tree.
inline void encode_into(Value &v, Bytes &o) {
    if (v.has_name) {
        v.ntb = o.size();
        put_int(o, 0x14, (int64_t)v.name.size());
        v.npb = o.size();
        o.insert(o.end(), v.name.begin(), v.name.end());
    }
    v.tb = o.size();
    switch (v.k) {
    case K_OBJ:
        o.push_back(0x40);
        for (auto &x : v.c) encode_into(x, o);
        o.push_back(0x41);
        break;
    case K_ARR:
        o.push_back(0x42);
        for (auto &x : v.c) encode_into(x, o);
        o.push_back(0x43);
        break;
    case K_BOOL: o.push_back(v.b ? 0x44 : 0x45); break;
    case K_INT: put_int(o, 0x10, v.i); break;
    case K_DBL: o.push_back(0x46); put_le64(o, v.d); break;
    case K_STR:
    case K_BYT:
        put_int(o, v.k == K_STR ? 0x14 : 0x18, (int64_t)v.s.size());
        v.pb = o.size();
        o.insert(o.end(), v.s.begin(), v.s.end());
        break;
    default: break;
    }
    v.te = o.size();
}

inline Bytes encode(Value &root) {
    Bytes o;
    encode_into(root, o);
    return o;
}

// ---------------------------------------------------------------------------
// Recogniser / decoder with the depth accounting of binson-c-light:
//  * object nesting limit min(max_depth,255); under an array root the root
//    occupies one object level;
//  * array nesting limit 255 counted per object level (arrays nested directly
//    in one another without an object in between).

enum Obstacle { OB_NONE = 0, OB_INIT, OB_RANGE, OB_FORMAT, OB_DEPTH_OBJ, OB_DEPTH_ARR };

inline const char *obstacle_name(Obstacle o) {
    switch (o) {
    case OB_NONE: return "none";
    case OB_INIT: return "init";
    case OB_RANGE: return "range";
    case OB_FORMAT: return "format";
    case OB_DEPTH_OBJ: return "depth-object";
    case OB_DEPTH_ARR: return "depth-array";
    }
    return "?";
}

struct Rec {
    bool ok = false;
    Obstacle ob = OB_NONE;
    size_t off = 0;        // offset of the token at which the first obstacle was met
    const char *why = "";  // finer classification of a FORMAT/RANGE obstacle
    Value root;            // only when ok && build
};

class Recogniser {
   public:
    Recogniser(const uint8_t *p, size_t n, unsigned max_depth, bool build) : p_(p), n_(n), maxd_(max_depth), build_(build) {}

    Rec run(bool array_root) {
        Rec r;
        if (n_ < 2) return failrec(r, OB_INIT, 0, "size<2");
        uint8_t b = array_root ? 0x42 : 0x40, e = array_root ? 0x43 : 0x41;
        if (p_[0] != b || p_[n_ - 1] != e) return failrec(r, OB_INIT, 0, "first/last byte");
        pos_ = 0;
        bool ok = value(r.root, array_root ? 1u : 0u, 0u);
        if (ok && pos_ != n_) ok = fail(OB_FORMAT, pos_, "trailing bytes");
        r.ok = ok;
        r.ob = ob_;
        r.off = oboff_;
        r.why = why_;
        if (!ok) r.root = Value();
        return r;
    }

   private:
    const uint8_t *p_;
    size_t n_;
    unsigned maxd_;
    bool build_;
    size_t pos_ = 0;
    Obstacle ob_ = OB_NONE;
    size_t oboff_ = 0;
    const char *why_ = "";

    static Rec &failrec(Rec &r, Obstacle o, size_t off, const char *why) {
        r.ok = false; r.ob = o; r.off = off; r.why = why;
        return r;
    }
    bool fail(Obstacle o, size_t at, const char *why) {
        if (ob_ == OB_NONE) { ob_ = o; oboff_ = at; why_ = why; }
        return false;
    }
    bool need(size_t k, size_t tok) {
        if (k > n_ - pos_) return fail(OB_RANGE, tok, "truncated");
        return true;
    }
    // reads a little-endian two's complement integer of width w at pos_, checks minimal width
    bool integer(int w, int64_t &out, size_t tok) {
        if (!need((size_t)w, tok)) return false;
        uint64_t u = (p_[pos_ + w - 1] & 0x80) ? ~0ULL : 0ULL;
        for (int i = w; i > 0; i--) u = (u << 8) | p_[pos_ + i - 1];
        out = (int64_t)u;
        pos_ += (size_t)w;
        if (int_width(out) != w) return fail(OB_FORMAT, tok, "non-minimal integer");
        return true;
    }
    // string/bytes token at pos_ (descriptor byte 0x14..0x16 / 0x18..0x1a)
    bool blob(Bytes *out, size_t *pb) {
        size_t tok = pos_;
        int w = 1 << (p_[pos_] & 3);
        pos_++;
        int64_t len;
        if (!need((size_t)w, tok)) return false;
        {
            uint64_t u = (p_[pos_ + w - 1] & 0x80) ? ~0ULL : 0ULL;
            for (int i = w; i > 0; i--) u = (u << 8) | p_[pos_ + i - 1];
            len = (int64_t)u;
            pos_ += (size_t)w;
            if (int_width(len) != w) return fail(OB_FORMAT, tok, "non-minimal length");
        }
        if (len < 0) return fail(OB_FORMAT, tok, "negative length");
        if (len > INT32_MAX) return fail(OB_FORMAT, tok, "length>INT32_MAX");
        if (!need((size_t)len, tok)) return false;
        if (pb) *pb = pos_;
        if (out && build_) out->assign(p_ + pos_, p_ + pos_ + len);
        pos_ += (size_t)len;
        return true;
    }

    // a value is allowed here by the grammar; objdepth/arrdepth as in the library
    bool value(Value &v, unsigned objdepth, unsigned arrdepth) {
        size_t tok = pos_;
        if (!need(1, tok)) return false;
        uint8_t t = p_[pos_];
        v.tb = tok;
        switch (t) {
        case 0x40: {
            if (!(objdepth < 255 && objdepth < maxd_)) return fail(OB_DEPTH_OBJ, tok, "object depth");
            pos_++;
            v.k = K_OBJ;
            Bytes prev;
            bool have_prev = false;
            for (;;) {
                size_t ft = pos_;
                if (!need(1, ft)) return false;
                uint8_t x = p_[pos_];
                if (x == 0x41) { pos_++; break; }
                if (!(x >= 0x14 && x <= 0x16)) {
                    // a value, an array END or garbage where a name is due
                    return fail(OB_FORMAT, ft, "name expected");
                }
                Value child;
                Value *cp = &child;
                cp->has_name = true;
                cp->ntb = ft;
                Bytes nm;
                size_t npb = 0;
                {
                    bool sb = build_;
                    build_ = true;  // names are always needed for the order test
                    bool ok = blob(&nm, &npb);
                    build_ = sb;
                    if (!ok) return false;
                }
                if (have_prev && cmp_bytes(prev, nm) >= 0) return fail(OB_FORMAT, ft, cmp_bytes(prev, nm) == 0 ? "duplicate name" : "name order");
                cp->npb = npb;
                size_t vt = pos_;
                if (!need(1, vt)) return false;
                if (p_[pos_] == 0x41 || p_[pos_] == 0x43) return fail(OB_FORMAT, vt, "value expected");
                if (!value(*cp, objdepth + 1, 0)) return false;
                prev = nm;
                have_prev = true;
                if (build_) {
                    cp->name = nm;
                    v.c.push_back(std::move(child));
                }
            }
            break;
        }
        case 0x42: {
            if (arrdepth >= 255) return fail(OB_DEPTH_ARR, tok, "array depth");
            pos_++;
            v.k = K_ARR;
            for (;;) {
                size_t et = pos_;
                if (!need(1, et)) return false;
                uint8_t x = p_[pos_];
                if (x == 0x43) { pos_++; break; }
                if (x == 0x41) return fail(OB_FORMAT, et, "object END in array");
                Value child;
                if (!value(child, objdepth, arrdepth + 1)) return false;
                if (build_) v.c.push_back(std::move(child));
            }
            break;
        }
        case 0x44: v.k = K_BOOL; v.b = true; pos_++; break;
        case 0x45: v.k = K_BOOL; v.b = false; pos_++; break;
        case 0x46: {
            pos_++;
            if (!need(8, tok)) return false;
            uint64_t u = 0;
            for (int i = 8; i > 0; i--) u = (u << 8) | p_[pos_ + i - 1];
            v.k = K_DBL; v.d = u;
            pos_ += 8;
            break;
        }
        case 0x10: case 0x11: case 0x12: case 0x13: {
            pos_++;
            v.k = K_INT;
            if (!integer(1 << (t & 3), v.i, tok)) return false;
            break;
        }
        case 0x14: case 0x15: case 0x16:
            v.k = K_STR;
            if (!blob(&v.s, &v.pb)) return false;
            break;
        case 0x18: case 0x19: case 0x1a:
            v.k = K_BYT;
            if (!blob(&v.s, &v.pb)) return false;
            break;
        default:
            return fail(OB_FORMAT, tok, "unknown token");
        }
        v.te = pos_;
        return true;
    }
};

// In the objects-nested-in-objects accounting above a field value sits at
// objdepth+1 only if it is an object; `value()` is called with the depth of
// the *enclosing* level, so the object case receives the depth it must test.
// (Kept as a free function for callers.)
inline Rec recognise(const uint8_t *p, size_t n, bool array_root, unsigned max_depth, bool build = true) {
    Recogniser r(p, n, max_depth, build);
    return r.run(array_root);
}

// ---------------------------------------------------------------------------
// Reference cursor: the navigation protocol over a decoded tree.

struct Cursor {
    struct Frame {
        const Value *v;
        size_t idx;    // children already reported
        bool pending;  // child idx-1 is a container that was reported but not consumed
    };
    const Value *root = nullptr;
    std::vector<Frame> st;
    bool done = false;           // root was left
    const Value *cur = nullptr;  // element described by the getters (after a true next/lookup)

    explicit Cursor(const Value *r) : root(r) {}

    bool in_root() const { return !st.empty(); }
    // container the next go_into_* / get_raw would act on
    const Value *pending() const {
        if (done) return nullptr;
        if (st.empty()) return root;
        const Frame &f = st.back();
        return f.pending ? &f.v->c[f.idx - 1] : nullptr;
    }
    const Value *innermost() const { return st.empty() ? nullptr : st.back().v; }
    size_t objects_open() const {
        size_t n = 0;
        for (auto &f : st) n += f.v->k == K_OBJ;
        return n;
    }
    bool next() {
        Frame &f = st.back();
        f.pending = false;
        if (f.idx < f.v->c.size()) {
            cur = &f.v->c[f.idx++];
            f.pending = cur->is_container();
            return true;
        }
        cur = nullptr;
        return false;
    }
    void enter() {
        const Value *p = pending();
        st.push_back(Frame{p, 0, false});
        cur = nullptr;
    }
    void leave() {
        st.pop_back();
        cur = nullptr;
        if (st.empty()) done = true;
        else st.back().pending = false;
    }
    const Value *raw() {  // consume the pending container, return it
        const Value *p = pending();
        if (st.empty()) done = true;
        else st.back().pending = false;
        cur = nullptr;
        return p;
    }
    // lookup inside an object
    bool field(const Bytes &name) {
        Frame &f = st.back();
        f.pending = false;
        while (f.idx < f.v->c.size()) {
            const Value &x = f.v->c[f.idx];
            int r = cmp_bytes(x.name, name);
            if (r > 0) { cur = nullptr; return false; }
            f.idx++;
            if (r == 0) {
                cur = &x;
                f.pending = x.is_container();
                return true;
            }
        }
        cur = nullptr;
        return false;
    }
    // byte offset a straightforward cursor would be at (used as a measurement, not as an oracle)
    size_t offset() const {
        if (done) return root->te;
        if (st.empty()) return root->tb;
        const Frame &f = st.back();
        if (f.idx == 0) return f.v->tb + 1;
        const Value &l = f.v->c[f.idx - 1];
        return f.pending ? l.tb : l.te;
    }
};

// ---------------------------------------------------------------------------
// Reference renderer (binson_parser_print / to_string text).

inline void render_text(std::string &o, const Bytes &s) {
    // printf("%.*s"): up to the first NUL
    for (uint8_t ch : s) {
        if (ch == 0) break;
        o.push_back((char)ch);
    }
}

inline void render_into(std::string &o, const Value &v) {
    if (v.has_name) {
        o.push_back('"');
        render_text(o, v.name);
        o += "\":";
    }
    char buf[512];
    switch (v.k) {
    case K_OBJ:
        o.push_back('{');
        for (size_t i = 0; i < v.c.size(); i++) {
            if (i) o.push_back(',');
            render_into(o, v.c[i]);
        }
        o.push_back('}');
        break;
    case K_ARR:
        o.push_back('[');
        for (size_t i = 0; i < v.c.size(); i++) {
            if (i) o.push_back(',');
            render_into(o, v.c[i]);
        }
        o.push_back(']');
        break;
    case K_BOOL: o += v.b ? "true" : "false"; break;
    case K_INT:
        snprintf(buf, sizeof buf, "%" PRId64, v.i);
        o += buf;
        break;
    case K_DBL: {
        double dv;
        memcpy(&dv, &v.d, 8);
        snprintf(buf, sizeof buf, "%f", dv);
        o += buf;
        break;
    }
    case K_STR:
        o.push_back('"');
        render_text(o, v.s);
        o.push_back('"');
        break;
    case K_BYT: {
        o += "\"0x";
        static const char *hx = "0123456789abcdef";
        for (uint8_t ch : v.s) {
            o.push_back(hx[ch >> 4]);
            o.push_back(hx[ch & 15]);
        }
        o.push_back('"');
        break;
    }
    default: break;
    }
}

inline std::string render(const Value &v) {
    std::string o;
    render_into(o, v);
    return o;
}

// ---------------------------------------------------------------------------
// Debug printing

inline std::string hex(const uint8_t *p, size_t n, size_t limit = 256) {
    static const char *hx = "0123456789abcdef";
    std::string o;
    for (size_t i = 0; i < n && i < limit; i++) {
        if (i) o.push_back(' ');
        o.push_back(hx[p[i] >> 4]);
        o.push_back(hx[p[i] & 15]);
    }
    if (n > limit) {
        char b[64];
        snprintf(b, sizeof b, " ...(%zu bytes)", n);
        o += b;
    }
    return o;
}
inline std::string hex(const Bytes &b, size_t limit = 256) { return hex(b.data(), b.size(), limit); }

inline void sketch_into(std::string &o, const Value &v, size_t &budget) {
    if (budget == 0) { o += "..."; return; }
    budget--;
    if (v.has_name) {
        o += "<" + hex(v.name, 8) + ">:";
    }
    char buf[64];
    switch (v.k) {
    case K_OBJ:
        o.push_back('{');
        for (size_t i = 0; i < v.c.size(); i++) { if (i) o.push_back(','); sketch_into(o, v.c[i], budget); }
        o.push_back('}');
        break;
    case K_ARR:
        o.push_back('[');
        for (size_t i = 0; i < v.c.size(); i++) { if (i) o.push_back(','); sketch_into(o, v.c[i], budget); }
        o.push_back(']');
        break;
    case K_BOOL: o += v.b ? "T" : "F"; break;
    case K_INT: snprintf(buf, sizeof buf, "%" PRId64, v.i); o += buf; break;
    case K_DBL: snprintf(buf, sizeof buf, "d%016" PRIx64, v.d); o += buf; break;
    case K_STR: snprintf(buf, sizeof buf, "s%zu", v.s.size()); o += buf; break;
    case K_BYT: snprintf(buf, sizeof buf, "b%zu", v.s.size()); o += buf; break;
    default: o += "?";
    }
}
inline std::string sketch(const Value &v, size_t budget = 60) {
    std::string o;
    sketch_into(o, v, budget);
    return o;
}

}  // namespace ref
