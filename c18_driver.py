"""C18: differential replay of one scenario corpus across compiler configurations."""
import os, sys, json, time, shutil, struct, subprocess, hashlib
from concurrent.futures import ThreadPoolExecutor

SANF = ['-fsanitize=address,undefined', '-fno-sanitize=nonnull-attribute,pointer-overflow', '-fno-sanitize-recover=undefined', '-fno-omit-frame-pointer']


def configs():
    c = []
    for cc, cxx in (('gcc', 'g++'), ('clang', 'clang++')):
        for o in ('-O0', '-O2', '-Os'):
            for ch in ('-fsigned-char', '-funsigned-char'):
                c.append(dict(name='%s%s%s' % (cc, o, ch.replace('-f', '-').replace('-char', '')), cc=cc, cxx=cxx, flags=[o, ch], link=[]))
    c.append(dict(name='gcc-asan-ubsan', cc='gcc', cxx='g++', flags=['-O1', '-g'] + SANF, link=SANF))
    c.append(dict(name='clang-asan-ubsan', cc='clang', cxx='clang++', flags=['-O1', '-g'] + SANF, link=SANF))
    return c


def main(prop, cfg, args, chk):
    VERIF, REPO, BUILD = chk.VERIF, chk.REPO, chk.BUILD
    log = chk.log
    replay_file = None
    tier = 'quick'
    if len(args) >= 2 and args[0] == '--replay':
        replay_file = os.path.abspath(args[1])
    elif args:
        tier = args[0] if args[0] in ('quick', 'thorough') else os.environ.get('VERIF_TIER', 'quick')
    else:
        tier = os.environ.get('VERIF_TIER', 'quick')
        if tier not in ('quick', 'thorough'):
            tier = 'quick'
    seed = int(os.environ.get('VERIF_SEED', '1') or 1)
    t0 = time.time()
    root = os.path.join(BUILD, prop)
    shutil.rmtree(root, ignore_errors=True)
    os.makedirs(root)
    cfgs = configs()
    defs = [chk.GUARD, '-DBINSON_PARSER_WITH_PRINT', '-I' + os.path.join(REPO, 'include')]
    # harness + engines: one fixed configuration (clang -O1, default char); only the library varies
    jobs = []
    hobj = os.path.join(root, 'harness.o')
    jobs.append((['clang++', '-std=gnu++17', '-O1', '-g'] + defs + ['-c', os.path.join(VERIF, 'harness', 'diff.cpp'), '-o', hobj], hobj))
    for c in cfgs:
        d = os.path.join(root, c['name'])
        os.makedirs(d)
        c['objs'] = []
        for src, comp, std in (('binson_parser.c', c['cc'], '-std=c99'), ('binson_writer.c', c['cc'], '-std=c99'), ('binson.cpp', c['cxx'], '-std=gnu++11')):
            o = os.path.join(d, src + '.o')
            jobs.append(([comp, std] + c['flags'] + defs + ['-c', os.path.join(REPO, 'src', src), '-o', o], o))
            c['objs'].append(o)
    with ThreadPoolExecutor(max_workers=chk.NCPU) as ex:
        f_replay = ex.submit(chk.engine_obj, 'replay_main', 'plain')
        f_rc = ex.submit(chk.engine_obj, 'rc_main', 'san')
        chk.compile_jobs(jobs)
        e_replay, e_rc = f_replay.result(), f_rc.result()
    links = []
    for c in cfgs:
        c['bin'] = os.path.join(root, c['name'], 'replay')
        links.append(([c['cxx']] + c['link'] + c['objs'] + [hobj, e_replay, '-o', c['bin']], c['bin']))
    ref = cfgs[7]  # clang-O0-signed... any: the generator only needs some build
    rcbin = os.path.join(root, 'rc')
    links.append((['clang++'] + ref['objs'] + [hobj, e_rc, '-lrapidcheck', '-o', rcbin], rcbin))
    chk.compile_jobs(links)
    build_s = time.time() - t0
    env = chk.base_env()

    def digest_all(corpus, tag):
        outs = {}

        def one(c):
            out = os.path.join(root, c['name'], 'digest-%s.bin' % tag)
            r = subprocess.run([c['bin'], '--digest', corpus, out], env=env, stdout=subprocess.PIPE, stderr=subprocess.STDOUT, preexec_fn=chk.child_limits)
            return c['name'], out, r.returncode, r.stdout.decode('utf-8', 'replace')
        with ThreadPoolExecutor(max_workers=chk.NCPU) as ex:
            for name, out, rc, txt in ex.map(one, cfgs):
                outs[name] = (out, rc, txt)
        return outs

    def read_corpus(path):
        raw = open(path, 'rb').read()
        i = 0
        items = []
        while i + 4 <= len(raw):
            n = struct.unpack_from('<I', raw, i)[0]
            i += 4
            items.append(raw[i:i + n])
            i += n
        return items

    def write_corpus(path, items):
        with open(path, 'wb') as f:
            for it in items:
                f.write(struct.pack('<I', len(it)))
                f.write(it)

    def compare(outs, items):
        """returns list of (index, {name: digest}) for scenarios whose digests differ, and crashes"""
        diffs, crashed = [], []
        data = {}
        for name, (out, rc, txt) in outs.items():
            if rc != 0 or not os.path.exists(out):
                crashed.append((name, rc, txt))
                data[name] = b''
            else:
                data[name] = open(out, 'rb').read()
        n = len(items)
        names = sorted(data)
        for i in range(n):
            ds = {}
            for nm in names:
                rec = data[nm][i * 9:i * 9 + 9]
                if len(rec) == 9:
                    ds[nm] = rec[:8].hex()   # configurations that aborted earlier simply have no record here
            if len(set(ds.values())) > 1:
                diffs.append((i, ds))
        nt = 0
        base = data[names[0]]
        for i in range(min(n, len(base) // 9)):
            if base[i * 9 + 8]:
                nt += 1
        return diffs, crashed, nt

    if replay_file:
        items = [open(replay_file, 'rb').read()]
        corp = os.path.join(root, 'one.bin')
        write_corpus(corp, items)
        outs = digest_all(corp, 'one')
        diffs, crashed, _ = compare(outs, items)
        r = subprocess.run([cfgs[0]['bin'], replay_file], env=env, stdout=subprocess.PIPE, stderr=subprocess.STDOUT)
        log(r.stdout.decode('utf-8', 'replace')[-3000:])
        for name, rc, txt in crashed:
            log('configuration %s aborted (exit %s):\n%s' % (name, rc, txt[-1500:]))
        if diffs:
            for nm, d in sorted(diffs[0][1].items()):
                log('  %-28s %s' % (nm, d))
            log('signature: C18/digest-differs')
            return 1
        log('signature: None (all %d configurations agree)' % len(cfgs))
        return 0

    # 1. regression cases
    violations = []
    regs = sorted(os.listdir(os.path.join(VERIF, 'regress', prop))) if os.path.isdir(os.path.join(VERIF, 'regress', prop)) else []
    regs = [os.path.join(VERIF, 'regress', prop, r) for r in regs if r.endswith('.case')]
    # 2. scenario corpus from rapidcheck (sharded), in the reference build
    nsh = 8
    per = cfg['cases'][tier] // nsh
    gens = []
    for sh in range(nsh):
        e = dict(env)
        e['VH_SAVE_CORPUS'] = os.path.join(root, 'corpus-%d.bin' % sh)
        e['VH_STATS'] = os.path.join(root, 'gen-%d.json' % sh)
        cd = chk.corpus_dirs(['valid_objects', 'bad_objects'])
        if cd:
            e['VH_CORPUS'] = ':'.join(cd)
        e['RC_PARAMS'] = 'seed=%d max_success=%d max_size=%d' % (chk.derive_seed(seed, prop, 'rc', sh), per, 250 if tier == 'quick' else 400)
        gens.append(subprocess.Popen([rcbin], env=e, stdout=subprocess.PIPE, stderr=subprocess.STDOUT, preexec_fn=chk.child_limits))
    for g in gens:
        g.communicate()
    items = [open(r, 'rb').read() for r in regs]
    for sh in range(nsh):
        p = os.path.join(root, 'corpus-%d.bin' % sh)
        if os.path.exists(p):
            items += read_corpus(p)
    corp = os.path.join(root, 'corpus.bin')
    write_corpus(corp, items)
    # split the corpus so that all cores are used: configs x chunks
    outs = digest_all(corp, 'all')
    diffs, crashed, nt = compare(outs, items)
    os.makedirs(os.path.join(VERIF, 'replays'), exist_ok=True)
    reported = None
    # candidate scenarios, earliest first: where a configuration aborted (a sanitizer build stops exactly at the culprit, a plain
    # build may notice heap damage only later) and where digests differ
    cands = []
    for name, rc, txt in crashed:
        out = outs[name][0]
        done = os.path.getsize(out) // 9 if os.path.exists(out) else 0
        if done < len(items):
            cands.append((done, {name: 'aborted: ' + txt[-400:].replace('\n', ' | ')}))
    cands += diffs[:3]
    cands.sort(key=lambda c: c[0])
    one = os.path.join(root, 'one.bin')
    for idx, ds in cands[:6]:
        write_corpus(one, [items[idx]])
        ok = 0
        for k in range(3):
            o2 = digest_all(one, 'confirm%d' % k)
            d2, c2, _ = compare(o2, [items[idx]])
            if d2 or c2:
                ok += 1
        if ok == 3:
            path = os.path.join(VERIF, 'replays', '%s-%s.case' % (prop, hashlib.sha256(items[idx]).hexdigest()[:10]))
            open(path, 'wb').write(items[idx])
            reported = (path, ds)
            violations.append(path)
            break
        log('note: scenario %d (digest difference or abort) reproduced only %d/3 times on its own (not reported)' % (idx, ok))
    if crashed and not reported:
        log('note: %d configuration(s) aborted during the corpus run but no single scenario reproduces it' % len(crashed))
    wall = time.time() - t0
    # evidence
    samples = []
    r = subprocess.run([cfgs[0]['bin'], '--digest', corp, os.devnull], env=env, stdout=subprocess.PIPE)
    for it in items[len(regs):len(regs) + 400:100]:
        tmp = os.path.join(root, 'sample.case')
        open(tmp, 'wb').write(it)
        rr = subprocess.run([cfgs[0]['bin'], tmp], env=env, stdout=subprocess.PIPE, stderr=subprocess.STDOUT)
        samples.append({'scenario_bytes': it[:48].hex(), 'observables': rr.stdout.decode('utf-8', 'replace')[:700]})
    if not samples:
        samples = [{'scenario_bytes': '', 'observables': 'none'}]
    distinct = len(set(hashlib.sha256(i).digest()[:8] for i in items))
    cov = dict(evaluations=len(items) * len(cfgs), distinct_nontrivial=min(nt, distinct), scenarios=len(items), distinct_scenarios=distinct,
               configurations=[c['name'] for c in cfgs], rule=cfg['rule'], samples=samples, regression_cases_replayed=len(regs), build_s=round(build_s, 1),
               digest_disagreements=len(diffs), known_findings=[])
    ev = dict(property_id=prop, tier=tier, seed=seed, level='exploration', coverage=cov, wall_s=round(wall, 1), violations=len(violations),
              assumptions=['the harness (decoders, digest computation) is compiled once with clang -O1 and linked against each library build, so only the library varies',
                           'x86-64 Linux only: ARM / newlib differences (uint_fast8_t width, alignment) are out of reach in this sandbox',
                           'gcc 12 and clang 14 as installed; ASan/UBSan configurations run without nonnull-attribute and pointer-overflow checks'])
    p = os.path.join(VERIF, 'evidence', prop + '.json')
    if os.path.realpath(REPO) != '/repo':
        p = os.path.join(root, 'evidence-scratch.json')
    os.makedirs(os.path.dirname(p), exist_ok=True)
    with open(p + '.tmp', 'w') as f:
        json.dump(ev, f, indent=1, sort_keys=True)
    os.replace(p + '.tmp', p)
    log('%s %s seed=%d: %d scenarios x %d configurations, %d non-trivial, %d disagreement(s), %.1fs (build %.1fs)' %
        (prop, tier, seed, len(items), len(cfgs), nt, len(diffs), wall, build_s))
    if reported:
        path, ds = reported
        for nm, d in sorted(ds.items()):
            log('  %-28s %s' % (nm, d))
        log('VIOLATION property=%s replay=%s' % (prop, path))
        return 1
    return 0
