"""Per-property configuration of ./check: harness, engines and budgets per tier."""

CORPUS = ['valid_objects', 'bad_objects']


def rc(cases, shards=4, max_size=200, corpus=None, **kw):
    d = dict(engine='rc', cases=cases, shards=shards, max_size=max_size, corpus=corpus or [])
    d.update(kw)
    return d


def fuzz(runs, shards=4, max_len=512, corpus=None, **kw):
    d = dict(engine='fuzz', runs=runs, shards=shards, max_len=max_len, corpus=corpus or [])
    d.update(kw)
    return d


def enum(shards=16, variant='plain', **kw):
    d = dict(engine='enum', shards=shards, variant=variant)
    d.update(kw)
    return d


PROPS = {
    'C02': dict(
        harness='verify',
        rule=('cases: byte strings decoded into (document, root kind, max_depth): encodings of generated trees, 1-4 structural/byte '
              'mutations of them, nesting chains around the depth limits, raw bytes (libFuzzer, shipped corpora), and every sequence of '
              '<= L chunks over a 27-chunk token alphabet (x 3 delimiter wrappings x 2 root kinds x 5 depths), plus a trailing-bytes sweep '
              '(4 well-formed documents + 55 tail lengths around 2^7/2^8/2^15/2^16 x 6 fills). A verdict is non-trivial '
              'iff init accepted the buffer (size >= 2, first/last byte right), i.e. the token loop decided it; distinct = distinct '
              'hash of (bytes, max_depth, root kind), set capped at 2^20 per process (conservative).'),
        tiers=dict(
            quick=[enum(shards=8, env={'VH_ENUM_L': '5'}), rc(20000, shards=4, corpus=CORPUS), fuzz(150000, shards=4, corpus=CORPUS)],
            thorough=[enum(shards=16, env={'VH_ENUM_L': '6'}), rc(400000, shards=6, max_size=400, corpus=CORPUS),
                      fuzz(3000000, shards=10, max_len=2048, corpus=CORPUS)],
        ),
        exhaustive_note=lambda tier, tot: [dict(scope='all chunk sequences of length <= %d over the 27-chunk alphabet x {object,array,no} delimiters x '
                                                 '{object,array} root x max_depth in {1,2,3,10,255}' % (5 if tier == 'quick' else 6),
                                                 exhaustive=True, sequences=tot['counters'].get('enum_sequences', 0),
                                                 verdicts=tot['counters'].get('verdicts', 0))],
    ),
}

NAV_RULE = ('cases: a valid document (generated tree, nesting chain or shipped valid corpus file; max_depth sufficient) plus a protocol-following '
            'op script decoded from the case bytes (next, next_ensure, go_into_*, leave_*, get_raw, to_writer, the four lookup variants, refused '
            'raw extraction on scalars), every call compared with the reference cursor; plus explicit-state exploration (BFS over joint states = '
            'parser struct + state array bytes x reference cursor) of every protocol-legal history on every tree with <= N nodes. ')


def nav(propid, nt_rule):
    return dict(
        harness='nav', env={'VH_PROP': propid},
        rule=NAV_RULE + nt_rule,
        tiers=dict(
            quick=[enum(shards=4, variant='san', env={'VH_ENUM_N': '5'}), rc(60000, shards=6, max_size=300, corpus=['valid_objects']),
                   fuzz(100000, shards=6, corpus=['valid_objects'])],
            thorough=[enum(shards=12, variant='san', env={'VH_ENUM_N': '6'}), enum(shards=16, variant='plain', tag='plain7', env={'VH_ENUM_N': '7'}),
                      rc(500000, shards=6, max_size=500, corpus=['valid_objects']), fuzz(1200000, shards=10, max_len=1024, corpus=['valid_objects'])],
        ),
        exhaustive_note=lambda tier, tot: [dict(scope='every protocol-legal call history (any length; visited-set BFS) on every object- and array-rooted tree with '
                                                 '<= %d nodes over {object, array, int, bool}, with two field-naming schemes (spaced single letters; prefix chain a, ab, abc)' % (5 if tier == 'quick' else 7), exhaustive=True,
                                                 trees=tot['counters'].get('enum_trees', 0), joint_states=tot['counters'].get('enum_joint_states', 0),
                                                 transitions=tot['counters'].get('enum_transitions', 0)),
                                           dict(scope='field-name lengths ' + ('0..300, 32700..32800, 65500..65600, 70000' if tier == 'quick' else '0..2000, 32000..33600, 65000..66200, 69990..70000') +
                                                ' x 3 document variants x 4 lookup probes (miss before / hit / miss after / between) x {from the start, after stopping on the previous field}',
                                                exhaustive=True, cases=tot['counters'].get('enum_name_sweep_cases', 0))],
    )


PROPS['C06'] = nav('C06', 'Non-trivial iff the script skips an un-entered container with next, or leaves with unread elements, or leaves while a container '
                   'is pending; every BFS transition inside the root counts as one distinct case. distinct = hash(document, executed ops).')
PROPS['C07'] = nav('C07', 'Non-trivial iff the script has a lookup miss later followed by a hit in the same case, or a lookup issued across a pending container, '
                   'or >= 2 lookups with a name containing 0x00 or a byte >= 0x80; every BFS transition inside the root counts as one distinct case.')
PROPS['C11'] = nav('C11', 'Non-trivial iff a get_raw/to_writer acts on a container nested >= 2 levels or after an earlier leave/raw/lookup; every BFS transition '
                   'inside the root counts as one distinct case.')

APISEQ_RULE = ('cases: (max_depth 1..255, root kind, prefill bytes for the parser struct and state array, document = generated tree / mutation / '
               'nesting chain / raw bytes up to 64 KiB, op script of <= 64 calls over the whole public parser API incl. re-init on the same buffer, on a '
               'truncated prefix and with the other root kind, reset, verify, print, to_string with a generated capacity); struct, state array '
               '(exactly max_depth entries), input (exactly len bytes) and every to_string destination are separate exactly-sized heap blocks. '
               'Lookups are issued only while a protocol shadow says the cursor is inside an object (documented precondition). ')

PROPS['C01'] = dict(
    harness='apiseq', env={'VH_PROP': 'C01'},
    rule=APISEQ_RULE + 'Non-trivial iff init was accepted and >= 1 advancing call succeeded, or init was rejected and further calls followed; '
         'distinct = hash(document, executed op kinds).',
    tiers=dict(
        quick=[enum(shards=4, variant='san'), rc(120000, shards=6, max_size=250, corpus=CORPUS), fuzz(400000, shards=10, corpus=CORPUS)],
        thorough=[enum(shards=4, variant='san'), rc(600000, shards=4, max_size=500, corpus=CORPUS), fuzz(6000000, shards=12, max_len=4096, corpus=CORPUS)],
    ),
)

PROPS['C14'] = dict(
    harness='text', env={'VH_PROP': 'C14'},
    rule=('cases: valid documents (generated trees of all seven types incl. names/strings with 0x00, quotes, %; nesting chains; shipped valid corpus files) '
          'rendered by to_string (capacity = size reported by the NULL query) and by print (fd 1 captured in a memfd), both compared byte for byte with '
          'the reference renderer; plus every tree with <= N nodes over {object, array, int, bool} (all combinations of empty/non-empty containers as '
          'first/middle/last sibling), plus an integer sweep q*10^k+r (k=1..18, q around every power of two, r with/without leading zeros). Non-trivial iff the tree has >= 2 siblings at some level and >= 1 nested container; distinct = hash(document).'),
    tiers=dict(
        quick=[enum(shards=4, variant='san', env={'VH_ENUM_N': '6'}), rc(80000, shards=6, max_size=250, corpus=['valid_objects']),
               fuzz(150000, shards=6, corpus=['valid_objects'])],
        thorough=[enum(shards=8, variant='san', env={'VH_ENUM_N': '8'}), rc(600000, shards=4, max_size=500, corpus=['valid_objects']),
                  fuzz(1500000, shards=12, max_len=1024, corpus=['valid_objects'])],
    ),
    exhaustive_note=lambda tier, tot: [dict(scope='all object- and array-rooted trees with <= %d nodes over {object, array, int, bool}' % (6 if tier == 'quick' else 8),
                                             exhaustive=True, trees=tot['counters'].get('enum_trees', 0))],
)
PROPS['C13'] = dict(
    harness='text', env={'VH_PROP': 'C13'},
    rule=('cases: (document, capacity) pairs: valid documents (long byte strings, doubles printing 300+ digits, deep nesting) x every capacity 0..need+3 '
          '(need <= 600) or capacities around every structural character, need-4..need+3 and 16 generated ones (larger texts); invalid/mutated/raw '
          'documents x 6 capacities + NULL. Destination is a heap block of exactly `capacity` bytes. Non-trivial iff 0 < capacity < need on a valid '
          'document (the text is cut), or the document is invalid; distinct = hash(document, capacity).'),
    tiers=dict(
        quick=[enum(shards=2, variant='san', env={'VH_ENUM_N': '5'}), rc(7000, shards=7, max_size=250, corpus=CORPUS), fuzz(10000, shards=7, max_len=256, corpus=CORPUS)],
        thorough=[enum(shards=4, variant='san', env={'VH_ENUM_N': '7'}), rc(50000, shards=6, max_size=500, corpus=CORPUS),
                  fuzz(120000, shards=12, max_len=1024, corpus=CORPUS)],
    ),
    exhaustive_note=lambda tier, tot: [dict(scope='every capacity 0..need+3 of every tree with <= %d nodes over {object, array, int, bool}' % (5 if tier == 'quick' else 7),
                                             exhaustive=True, trees=tot['counters'].get('enum_trees', 0))],
)

PROPS['C15'] = dict(
    harness='cpp', cpp=True,
    rule=('cases: byte strings (encodings of generated object-rooted trees of all seven types with keys containing 0x00 / >= 0x80, documents above the '
          '1000-byte first-try buffer, 1-4 mutations of them, nesting chains, raw bytes incl. length 0 and 1, shipped valid and invalid corpora) through all '
          'three deserialize overloads, verdict compared with the reference recogniser at depth 10; for valid ones serialize(deserialize(b)) == b, the '
          'tree is rebuilt with put() in a generated non-sorted insertion order, serialize() compared with the reference encoder and round-tripped. '
          'Non-trivial iff (bytes) init accepts the buffer, or (trees) the encoding exceeds 1000 bytes or nesting >= 3; distinct = hash(bytes, part).'),
    tiers=dict(
        quick=[rc(40000, shards=8, max_size=300, corpus=CORPUS), fuzz(60000, shards=8, corpus=CORPUS)],
        thorough=[rc(500000, shards=6, max_size=600, corpus=CORPUS), fuzz(1000000, shards=10, max_len=2048, corpus=CORPUS)],
    ),
)

WRITER_GEN = ('cases: write-call sequences decoded from the case bytes: well-formed ones flattened from generated trees (all types, integer/length '
              'boundaries, payloads up to 70000 bytes) and arbitrary ones over all writer calls incl. write_raw, the C-string forms, unbalanced '
              'begin/end and names without values; every payload and the destination live in exactly-sized heap blocks. ')
PROPS['C04'] = dict(
    harness='writer', env={'VH_PROP': 'C04'},
    rule=WRITER_GEN + 'Each sequence is run against every capacity 0..size+2 (size <= 512) or 0, 1, every piece boundary +-1, size-1, size, size+1 and 16 '
         'generated capacities, and re-run with the reported size. A (sequence, capacity) pair is non-trivial iff 0 < capacity < size and the cut '
         'falls strictly inside a token; distinct = hash(encoding, call count, capacity).',
    tiers=dict(
        quick=[rc(12000, shards=8, max_size=250), fuzz(30000, shards=8, max_len=256)],
        thorough=[rc(200000, shards=6, max_size=500), fuzz(250000, shards=10, max_len=1024)],
    ),
)
PROPS['C05'] = dict(
    harness='writer', env={'VH_PROP': 'C05'},
    rule=WRITER_GEN + 'Only well-formed sequences here: output compared byte for byte with the reference encoder, verified, decoded back by a full traversal, '
         'writer_verify within its limits. Sweeps: every integer within 2^16 of +-2^k (k = 0..63) and (thorough) every 32-bit value, every '
         'string/bytes length (quick: 0..300, 32700..32800, 65500..65600, 70000; thorough: 0..70000), each written, compared with the reference '
         'encoding and read back. Non-trivial iff some integer or length needs more than one byte; distinct = hash(encoding) / sampled sweep values '
         '(every 64th boundary integer and every length are entered into the distinct set).',
    tiers=dict(
        quick=[enum(shards=8, variant='plain'), rc(60000, shards=4, max_size=300), fuzz(100000, shards=4, max_len=512)],
        thorough=[enum(shards=16, variant='plain'), rc(400000, shards=4, max_size=600), fuzz(1500000, shards=10, max_len=2048)],
    ),
    exhaustive_note=lambda tier, tot: [dict(scope='integers within 2^16 of +-2^k, k=0..63' + (' and all 2^32 32-bit values' if tier == 'thorough' else ''),
                                             exhaustive=True, values=tot['counters'].get('enum_boundary_integers', 0) + tot['counters'].get('enum_all_int32', 0)),
                                        dict(scope='string and bytes lengths ' + ('0..70000' if tier == 'thorough' else '0..300, 32700..32800, 65500..65600, 70000'),
                                             exhaustive=True, values=tot['counters'].get('enum_lengths', 0))],
)
PROPS['C09'] = dict(
    harness='apiseq', env={'VH_PROP': 'C09'},
    rule=('parser half: ' + APISEQ_RULE + 'Each error class (RANGE by truncation, FORMAT by mutation, WRONG_TYPE by *_ensure, STATE by get_name without a name, '
          'MAX_DEPTH_* by deep documents with small max_depth, NULL by field_with_length(NULL)) occurs at whatever position the script reaches it; '
          'afterwards arbitrary further calls are checked for false / neutral results until reset, init, verify, print or to_string. writer half: '
          + WRITER_GEN + 'run against a too-small capacity, a NULL buffer or an injected NULL argument, then continued with the remaining calls. '
          'Non-trivial iff >= 3 calls follow the first error incl. one advancing call and one getter (parser) / one write that would still fit '
          '(writer); distinct = hash(document or encoding, op kinds, capacity).'),
    tiers=dict(
        quick=[rc(100000, shards=4, max_size=250, corpus=CORPUS), fuzz(300000, shards=5, corpus=CORPUS),
               rc(60000, shards=3, max_size=250, harness='writer', tag='w'), fuzz(150000, shards=4, max_len=256, harness='writer', tag='w')],
        thorough=[rc(600000, shards=3, max_size=500, corpus=CORPUS), fuzz(5000000, shards=7, max_len=4096, corpus=CORPUS),
                  rc(600000, shards=2, max_size=500, harness='writer', tag='w'), fuzz(2500000, shards=4, max_len=1024, harness='writer', tag='w')],
    ),
)

PROPS['C03'] = dict(
    harness='decode', env={'VH_PROP': 'C03'},
    rule=('cases: valid object- and array-rooted documents (generated trees of all seven types: integers around every width boundary and random, arbitrary '
          'double bit patterns incl. NaN payloads/-0/inf/denormals, names/strings/bytes with arbitrary bytes and lengths across 127/128 and 32767/32768 up '
          'to 70000, nesting chains up to the limits, shipped valid corpus files) walked completely with next/go_into_*/leave_*; every element compared '
          'with the reference decoder (type, name/string/bytes spans by pointer identity, integer, double bits, boolean, neutral results of all other '
          'getters, string_equals for exact/longer/shorter/differing strings and on non-strings). Sweeps: every integer within 2^16 of +-2^k and '
          '(thorough) every 32-bit value, every string/bytes length (quick subset / thorough 0..70000) from the reference encoder through the parser. '
          'Non-trivial iff the document has an integer outside int8, a length >= 128 or nesting >= 2; distinct = hash(document) / sampled sweep values.'),
    tiers=dict(
        quick=[enum(shards=8, variant='plain'), rc(60000, shards=4, max_size=300, corpus=['valid_objects']), fuzz(100000, shards=4, max_len=512, corpus=['valid_objects'])],
        thorough=[enum(shards=16, variant='plain'), rc(400000, shards=4, max_size=600, corpus=['valid_objects']), fuzz(1500000, shards=10, max_len=2048, corpus=['valid_objects'])],
    ),
    exhaustive_note=lambda tier, tot: [dict(scope='integer encodings within 2^16 of +-2^k, k=0..63' + (' and all 2^32 1-, 2- and 4-byte encodings' if tier == 'thorough' else ''),
                                             exhaustive=True, values=tot['counters'].get('enum_boundary_integers', 0) + tot['counters'].get('enum_all_int32', 0)),
                                        dict(scope='string and bytes lengths ' + ('0..70000' if tier == 'thorough' else '0..300, 32700..32800, 65500..65600, 70000'),
                                             exhaustive=True, values=tot['counters'].get('enum_lengths', 0))],
)
PROPS['C10'] = dict(
    harness='decode', env={'VH_PROP': 'C10'},
    rule=('cases: valid object-rooted documents (generated trees as for C03, nesting chains, and all 220 shipped valid corpus files, each replayed in every run) '
          'traversed with the parser while every decoded name and value is handed to the matching writer call; the writer buffer (exactly input-sized) '
          'must equal the input byte for byte. Non-trivial iff the document has >= 3 distinct token kinds and one multi-byte integer or length; '
          'distinct = hash(document).'),
    tiers=dict(
        quick=[enum(shards=2, variant='san'), rc(80000, shards=7, max_size=300, corpus=['valid_objects']), fuzz(150000, shards=7, max_len=512, corpus=['valid_objects'])],
        thorough=[enum(shards=2, variant='san'), rc(600000, shards=4, max_size=600, corpus=['valid_objects']), fuzz(1500000, shards=10, max_len=2048, corpus=['valid_objects'])],
    ),
    exhaustive_note=lambda tier, tot: [dict(scope='all shipped valid corpus files (utest/test_data/valid_objects)', exhaustive=True,
                                             files=tot['counters'].get('corpus_files_transcribed', 0))],
)

PROPS['C08'] = dict(
    harness='strict',
    rule=('cases: arbitrary byte strings (encodings of generated trees, 1-4 structural/byte mutations of them, nesting chains around the limits, raw bytes, '
          'shipped valid and invalid corpora) x max_depth from {1,2,3,10,255} or random x three adaptive traversal strategies per document that use only '
          'the parser\'s own answers (next / lookup with names seen so far / enter, skip, get_raw or to_writer on containers / early leaves, ending by '
          'leaving the root). Traversal verdict (every enter/leave/raw successful and error NONE at the end) must equal verify on a fresh parser (and the '
          'reference recogniser). Non-trivial iff init accepted the bytes and either the document is invalid with its first defect inside a byte range '
          'the strategy passed over without entering (skip, early leave, raw, lookup), or it is valid and the strategy used an early leave; '
          'distinct = hash(bytes, strategy choices).'),
    tiers=dict(
        quick=[rc(80000, shards=7, max_size=250, corpus=CORPUS), fuzz(200000, shards=9, corpus=CORPUS)],
        thorough=[rc(600000, shards=4, max_size=500, corpus=CORPUS), fuzz(2000000, shards=12, max_len=2048, corpus=CORPUS)],
    ),
)

PROPS['C12'] = dict(
    harness='reuse',
    exhaustive_note=lambda tier, tot: [dict(scope='nested structure starting at offset T-d, T in {256, 32768, 65535, 65536, 65537}, d in 0..%d, object- and array-rooted, entering-everything traversal abandoned after k = 0..29 steps, restart by reset and by verify' % (5 if tier == 'quick' else 11),
                                             exhaustive=True, cases=tot['counters'].get('enum_abandon_sweep_cases', 0))],
    rule=('cases: pairs (previous use, next use). Previous: arbitrary (valid / mutated / raw) document, arbitrary and also off-protocol op script of up to '
          '24 calls abandoned anywhere (mid-container, after an error, after a rejected init), arbitrary pre-fill of the struct and the state array; then '
          'init on a second generated document, or reset, or verify. Next: arbitrary op script of up to 64 calls over the same op alphabet as C01. The '
          'hash of everything each call lets the caller observe (return value, error code, depth, getter values, spans as offsets, to_string size/text) '
          'must equal the trace of the same script on a fresh zero-initialised parser. Writer: arbitrary sequence incl. overflow / NULL-argument errors, '
          'then init or a reset that returned true, then a second sequence compared (returns, counter, error, bytes) with a fresh writer. Non-trivial '
          'iff the previous use ended inside a container, in an error, with a rejected init or over a garbage struct, the restart was accepted and >= 4 '
          'calls were compared (writer: the previous use ended in an error); distinct = hash(both documents, op kinds).'),
    tiers=dict(
        quick=[enum(shards=2, variant='san'), rc(80000, shards=7, max_size=300, corpus=CORPUS), fuzz(250000, shards=9, corpus=CORPUS)],
        thorough=[enum(shards=2, variant='san'), rc(600000, shards=4, max_size=600, corpus=CORPUS), fuzz(2500000, shards=12, max_len=2048, corpus=CORPUS)],
    ),
)

PROPS['C16'] = dict(
    harness='apiseq', env={'VH_PROP': 'C16'}, replay_timeout=10,
    exhaustive_note=lambda tier, tot: [dict(scope='field-name lengths ' + ('0..300, 32700..32800, 65500..65600, 69999' if tier == 'quick' else '0..2000, 32000..33600, 65000..66200, 69990..69999') +
                                             ' x 4 variants: cursor stopped on an un-entered array, then 4 lookups overshooting onto the long name, a hit, 3 misses after it, a hit, leave, verify - each call measured; '
                                             'and [string | bytes of that length, 1]: verify, walk, to_string into NULL / need-1 / need / need+1 / 2L+64 / 4L+4096 bytes under the alarm',
                                             exhaustive=True, cases=tot['counters'].get('enum_name_sweep_cases', 0))],
    rule=(APISEQ_RULE + 'The harness installs a counting callback in the public cb slot before every call: per call, token callbacks <= bytes the cursor '
          'advanced + 1 (+1 more for a failed lookup, which re-reads the one name it overshot, and for get_raw/to_writer, which scan twice), token callbacks '
          '<= input length + 1 for every call incl. verify, and the cursor never moves backwards except by restarting calls (init/reset/verify/print/'
          'to_string). A watchdog (libFuzzer -timeout=10, rapidcheck job cap + 10 s replay) reports a hang only after three confirming replays of the saved '
          'case. Second oracle (work harness, library built with trace-pc-guard edge callbacks counted by the harness): on 16 size-scaled '
          'families measured at n, 2n, 4n the edge-count increment from 2n to 4n must not exceed 2.6x the increment from n to 2n. '
          'Non-trivial iff some call advanced over >= 2 tokens without returning to the caller (work harness: every scaling triple); distinct = hash(document, op kinds) / (family, n).'),
    tiers=dict(
        quick=[enum(shards=4, variant='san'), enum(shards=2, variant='cov', harness='work', tag='work'), rc(3000, shards=1, max_size=60, variant='cov', harness='work', tag='work'),
               rc(100000, shards=6, max_size=250, corpus=CORPUS, hang_is_violation=True, timeout=400),
               fuzz(350000, shards=10, corpus=CORPUS, unit_timeout=10, timeouts_count=True)],
        thorough=[enum(shards=8, variant='san'), enum(shards=4, variant='cov', harness='work', tag='work'), rc(60000, shards=2, max_size=60, variant='cov', harness='work', tag='work'),
                  rc(600000, shards=4, max_size=500, corpus=CORPUS, hang_is_violation=True, timeout=3000),
                  fuzz(5000000, shards=12, max_len=4096, corpus=CORPUS, unit_timeout=10, timeouts_count=True)],
    ),
)

FOOT_VARIANTS = ['foot-gcc-%s-%s' % (o, p) for o in ('O0', 'O2', 'Os') for p in ('print', 'noprint')]
PROPS['C17'] = dict(
    harness='foot', default_variant='foot-gcc-O2-print',
    rule=('cases, run against the uninstrumented library built as a shared object in each of gcc {-O0,-O2,-Os} x {with, without BINSON_PARSER_WITH_PRINT}: '
          '(a) scaling triples: a document shape (nested objects, nested arrays, element count, string and name length) and the same shape scaled in a '
          'generated subset of those dimensions (to 200-254 levels, +500..2000 elements, 30000-65000-byte payloads, 20000-30000-byte names); every public '
          'entry point (init, verify, go_into, next, skip, leave, lookups hit/miss, get_raw, to_writer, to_string, to_string(NULL), print, all writer '
          'calls) runs on a private painted stack and its high-water mark must agree within 512 B across the three sizes; (b) interleavings: two parsers '
          'and two writers with generated documents/scripts stepped in a generated schedule vs. alone, traces must agree. Around every case the library\'s '
          'writable segment (-z relro -z now) must be byte-identical and the counting wrappers that replace every allocator symbol referenced by the '
          'library objects must not have been called. Every case is non-trivial by construction (scaled nesting >= 200 or payload >= 1 KiB, or an '
          'interleaving with >= 4 switches); distinct = hash(shape parameters / documents and schedule).'),
    tiers=dict(
        quick=[rc(350, shards=2, max_size=200, variant=v, tag=v) for v in FOOT_VARIANTS],
        thorough=[rc(2500, shards=2, max_size=300, variant=v, tag=v) for v in FOOT_VARIANTS],
    ),
)

PROPS['C18'] = dict(
    custom='c18_driver', harness='diff', cases=dict(quick=240000, thorough=2400000),
    rule=('cases: scenarios = byte strings generated once per run by rapidcheck and decoded into (a) a document (tree / mutation / chain / raw / shipped '
          'corpus) plus a script of up to 48 calls over the whole public parser API incl. lookups, getters, print and to_string, (b) a writer call sequence '
          'with a generated capacity, writer_verify and reset, (c) all three Binson::deserialize overloads, serialize, toStr, iteration order and put() in '
          'reverse order, (d) to_string at three capacities and print. The digest of all observables (return values, error codes, decoded values, spans as '
          'offsets, bytes written, counters, text, captured stdout, exception kind) must be identical in {gcc,clang} x {-O0,-O2,-Os} x '
          '{-fsigned-char,-funsigned-char} and in gcc/clang ASan+UBSan builds (which must also not trap). Non-trivial iff the scenario document or call '
          'sequence contains a byte >= 0x80, a double, or a negative multi-byte integer; distinct = distinct scenario byte strings.'),
)
