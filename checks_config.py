"""Per-property configuration of ./check: harness, engines and budgets per tier."""

CORPUS = ['valid_objects', 'bad_objects']


def rc(cases, shards=4, max_size=200, corpus=None, **kw):
    d = dict(engine='rc', cases=cases, shards=shards, max_size=max_size, corpus=corpus or [])
    d.update(kw)
    return d


def fuzz(runs, shards=4, max_len=512, corpus=None, **kw):
    d = dict(engine='fuzz', runs=runs, shards=shards, max_len=max_len, corpus=corpus or [])
    d.update(kw)
    return d


def enum(shards=16, variant='plain', **kw):
    d = dict(engine='enum', shards=shards, variant=variant)
    d.update(kw)
    return d


PROPS = {
    'C02': dict(
        harness='verify',
        rule=('cases: byte strings decoded into (document, root kind, max_depth): encodings of generated trees, 1-4 structural/byte '
              'mutations of them, nesting chains around the depth limits, raw bytes (libFuzzer, shipped corpora), and every sequence of '
              '<= L chunks over a 27-chunk token alphabet (x 3 delimiter wrappings x 2 root kinds x 5 depths). A verdict is non-trivial '
              'iff init accepted the buffer (size >= 2, first/last byte right), i.e. the token loop decided it; distinct = distinct '
              'hash of (bytes, max_depth, root kind), set capped at 2^20 per process (conservative).'),
        tiers=dict(
            quick=[enum(shards=8, env={'VH_ENUM_L': '5'}), rc(20000, shards=4, corpus=CORPUS), fuzz(150000, shards=4, corpus=CORPUS)],
            thorough=[enum(shards=16, env={'VH_ENUM_L': '6'}), rc(400000, shards=6, max_size=400, corpus=CORPUS),
                      fuzz(8000000, shards=10, max_len=2048, corpus=CORPUS)],
        ),
        exhaustive_note=lambda tier, tot: [dict(scope='all chunk sequences of length <= %d over the 27-chunk alphabet x {object,array,no} delimiters x '
                                                 '{object,array} root x max_depth in {1,2,3,10,255}' % (5 if tier == 'quick' else 6),
                                                 exhaustive=True, sequences=tot['counters'].get('enum_sequences', 0),
                                                 verdicts=tot['counters'].get('verdicts', 0))],
    ),
}

NAV_RULE = ('cases: a valid document (generated tree, nesting chain or shipped valid corpus file; max_depth sufficient) plus a protocol-following '
            'op script decoded from the case bytes (next, next_ensure, go_into_*, leave_*, get_raw, to_writer, the four lookup variants, refused '
            'raw extraction on scalars), every call compared with the reference cursor; plus explicit-state exploration (BFS over joint states = '
            'parser struct + state array bytes x reference cursor) of every protocol-legal history on every tree with <= N nodes. ')


def nav(propid, nt_rule):
    return dict(
        harness='nav', env={'VH_PROP': propid},
        rule=NAV_RULE + nt_rule,
        tiers=dict(
            quick=[enum(shards=4, variant='san', env={'VH_ENUM_N': '5'}), rc(25000, shards=6, max_size=300, corpus=['valid_objects']),
                   fuzz(150000, shards=6, corpus=['valid_objects'])],
            thorough=[enum(shards=12, variant='san', env={'VH_ENUM_N': '6'}), enum(shards=16, variant='plain', tag='plain7', env={'VH_ENUM_N': '7'}),
                      rc(500000, shards=6, max_size=500, corpus=['valid_objects']), fuzz(10000000, shards=10, max_len=1024, corpus=['valid_objects'])],
        ),
        exhaustive_note=lambda tier, tot: [dict(scope='every protocol-legal call history (any length; visited-set BFS) on every object- and array-rooted tree with '
                                                 '<= %d nodes over {object, array, int, bool}' % (5 if tier == 'quick' else 7), exhaustive=True,
                                                 trees=tot['counters'].get('enum_trees', 0), joint_states=tot['counters'].get('enum_joint_states', 0),
                                                 transitions=tot['counters'].get('enum_transitions', 0))],
    )


PROPS['C06'] = nav('C06', 'Non-trivial iff the script skips an un-entered container with next, or leaves with unread elements, or leaves while a container '
                   'is pending; every BFS transition inside the root counts as one distinct case. distinct = hash(document, executed ops).')
PROPS['C07'] = nav('C07', 'Non-trivial iff the script has a lookup miss later followed by a hit in the same case, or a lookup issued across a pending container, '
                   'or >= 2 lookups with a name containing 0x00 or a byte >= 0x80; every BFS transition inside the root counts as one distinct case.')
PROPS['C11'] = nav('C11', 'Non-trivial iff a get_raw/to_writer acts on a container nested >= 2 levels or after an earlier leave/raw/lookup; every BFS transition '
                   'inside the root counts as one distinct case.')

APISEQ_RULE = ('cases: (max_depth 1..255, root kind, prefill bytes for the parser struct and state array, document = generated tree / mutation / '
               'nesting chain / raw bytes up to 64 KiB, op script of <= 64 calls over the whole public parser API incl. re-init on the same buffer, on a '
               'truncated prefix and with the other root kind, reset, verify, print, to_string with a generated capacity); struct, state array '
               '(exactly max_depth entries), input (exactly len bytes) and every to_string destination are separate exactly-sized heap blocks. '
               'Lookups are issued only while a protocol shadow says the cursor is inside an object (documented precondition). ')

PROPS['C01'] = dict(
    harness='apiseq', env={'VH_PROP': 'C01'},
    rule=APISEQ_RULE + 'Non-trivial iff init was accepted and >= 1 advancing call succeeded, or init was rejected and further calls followed; '
         'distinct = hash(document, executed op kinds).',
    tiers=dict(
        quick=[rc(30000, shards=6, max_size=250, corpus=CORPUS), fuzz(400000, shards=10, corpus=CORPUS)],
        thorough=[rc(600000, shards=4, max_size=500, corpus=CORPUS), fuzz(40000000, shards=12, max_len=4096, corpus=CORPUS)],
    ),
)

PROPS['C14'] = dict(
    harness='text', env={'VH_PROP': 'C14'},
    rule=('cases: valid documents (generated trees of all seven types incl. names/strings with 0x00, quotes, %; nesting chains; shipped valid corpus files) '
          'rendered by to_string (capacity = size reported by the NULL query) and by print (fd 1 captured in a memfd), both compared byte for byte with '
          'the reference renderer; plus every tree with <= N nodes over {object, array, int, bool} (all combinations of empty/non-empty containers as '
          'first/middle/last sibling). Non-trivial iff the tree has >= 2 siblings at some level and >= 1 nested container; distinct = hash(document).'),
    tiers=dict(
        quick=[enum(shards=4, variant='san', env={'VH_ENUM_N': '6'}), rc(30000, shards=6, max_size=250, corpus=['valid_objects']),
               fuzz(150000, shards=6, corpus=['valid_objects'])],
        thorough=[enum(shards=8, variant='san', env={'VH_ENUM_N': '8'}), rc(600000, shards=4, max_size=500, corpus=['valid_objects']),
                  fuzz(6000000, shards=12, max_len=1024, corpus=['valid_objects'])],
    ),
    exhaustive_note=lambda tier, tot: [dict(scope='all object- and array-rooted trees with <= %d nodes over {object, array, int, bool}' % (6 if tier == 'quick' else 8),
                                             exhaustive=True, trees=tot['counters'].get('enum_trees', 0))],
)
PROPS['C13'] = dict(
    harness='text', env={'VH_PROP': 'C13'},
    rule=('cases: (document, capacity) pairs: valid documents (long byte strings, doubles printing 300+ digits, deep nesting) x every capacity 0..need+3 '
          '(need <= 600) or capacities around every structural character, need-4..need+3 and 16 generated ones (larger texts); invalid/mutated/raw '
          'documents x 6 capacities + NULL. Destination is a heap block of exactly `capacity` bytes. Non-trivial iff 0 < capacity < need on a valid '
          'document (the text is cut), or the document is invalid; distinct = hash(document, capacity).'),
    tiers=dict(
        quick=[enum(shards=2, variant='san', env={'VH_ENUM_N': '5'}), rc(10000, shards=7, max_size=250, corpus=CORPUS), fuzz(10000, shards=7, max_len=256, corpus=CORPUS)],
        thorough=[enum(shards=4, variant='san', env={'VH_ENUM_N': '7'}), rc(300000, shards=4, max_size=500, corpus=CORPUS),
                  fuzz(400000, shards=12, max_len=1024, corpus=CORPUS)],
    ),
    exhaustive_note=lambda tier, tot: [dict(scope='every capacity 0..need+3 of every tree with <= %d nodes over {object, array, int, bool}' % (5 if tier == 'quick' else 7),
                                             exhaustive=True, trees=tot['counters'].get('enum_trees', 0))],
)

PROPS['C15'] = dict(
    harness='cpp', cpp=True,
    rule=('cases: byte strings (encodings of generated object-rooted trees of all seven types with keys containing 0x00 / >= 0x80, documents above the '
          '1000-byte first-try buffer, 1-4 mutations of them, nesting chains, raw bytes incl. length 0 and 1, shipped valid and invalid corpora) through all '
          'three deserialize overloads, verdict compared with the reference recogniser at depth 10; for valid ones serialize(deserialize(b)) == b, the '
          'tree is rebuilt with put() in a generated non-sorted insertion order, serialize() compared with the reference encoder and round-tripped. '
          'Non-trivial iff (bytes) init accepts the buffer, or (trees) the encoding exceeds 1000 bytes or nesting >= 3; distinct = hash(bytes, part).'),
    tiers=dict(
        quick=[rc(25000, shards=8, max_size=300, corpus=CORPUS), fuzz(100000, shards=8, corpus=CORPUS)],
        thorough=[rc(500000, shards=6, max_size=600, corpus=CORPUS), fuzz(5000000, shards=10, max_len=2048, corpus=CORPUS)],
    ),
)
