"""Per-property configuration of ./check: harness, engines and budgets per tier."""

CORPUS = ['valid_objects', 'bad_objects']


def rc(cases, shards=4, max_size=200, corpus=None, **kw):
    d = dict(engine='rc', cases=cases, shards=shards, max_size=max_size, corpus=corpus or [])
    d.update(kw)
    return d


def fuzz(runs, shards=4, max_len=512, corpus=None, **kw):
    d = dict(engine='fuzz', runs=runs, shards=shards, max_len=max_len, corpus=corpus or [])
    d.update(kw)
    return d


def enum(shards=16, variant='plain', **kw):
    d = dict(engine='enum', shards=shards, variant=variant)
    d.update(kw)
    return d


PROPS = {
    'C02': dict(
        harness='verify',
        rule=('cases: byte strings decoded into (document, root kind, max_depth): encodings of generated trees, 1-4 structural/byte '
              'mutations of them, nesting chains around the depth limits, raw bytes (libFuzzer, shipped corpora), and every sequence of '
              '<= L chunks over a 27-chunk token alphabet (x 3 delimiter wrappings x 2 root kinds x 5 depths). A verdict is non-trivial '
              'iff init accepted the buffer (size >= 2, first/last byte right), i.e. the token loop decided it; distinct = distinct '
              'hash of (bytes, max_depth, root kind), set capped at 2^20 per process (conservative).'),
        tiers=dict(
            quick=[enum(shards=8, env={'VH_ENUM_L': '5'}), rc(20000, shards=4, corpus=CORPUS), fuzz(150000, shards=4, corpus=CORPUS)],
            thorough=[enum(shards=16, env={'VH_ENUM_L': '6'}), rc(400000, shards=6, max_size=400, corpus=CORPUS),
                      fuzz(8000000, shards=10, max_len=2048, corpus=CORPUS)],
        ),
        exhaustive_note=lambda tier, tot: [dict(scope='all chunk sequences of length <= %d over the 27-chunk alphabet x {object,array,no} delimiters x '
                                                 '{object,array} root x max_depth in {1,2,3,10,255}' % (5 if tier == 'quick' else 6),
                                                 exhaustive=True, sequences=tot['counters'].get('enum_sequences', 0),
                                                 verdicts=tot['counters'].get('verdicts', 0))],
    ),
}
