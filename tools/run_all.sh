#!/bin/bash
# runs every registered check's tier sequentially; prints one line per check
tier=${1:-quick}
cd "$(dirname "$0")/.."
for p in C01 C02 C03 C04 C05 C06 C07 C08 C09 C10 C11 C12 C13 C14 C15 C16 C17 C18; do
  s=$(date +%s)
  out=$(./check $p $tier 2>&1); rc=$?
  e=$(date +%s)
  echo "$p rc=$rc $((e-s))s :: $(echo "$out" | grep -E 'seed=' | tail -1)"
  if [ $rc -ne 0 ]; then echo "$out" | grep -E "VIOLATION|signature|INFRA|BUILD" | head -5; fi
done
