#!/usr/bin/env python3
"""Renders sensitivity/SUMMARY.md and seeded/SUMMARY.md from the recorded results."""
import json, os, sys
VERIF = os.path.dirname(os.path.dirname(os.path.abspath(__file__)))
sys.path.insert(0, os.path.join(VERIF, 'tools'))
import mutants

NOTES = {
    ('m03_rewind_one_more', 'C01'): 'not a memory-safety violation (the name token is always preceded by at least the BEGIN byte); C07 and C16 catch it',
    ('m04_negative_length', 'C01'): 'equivalent for C01/C02: the huge size_t length is refused by _check_boundary (RANGE instead of FORMAT, verdict unchanged); only the error code differs, which the pinned suite notices',
    ('m04_negative_length', 'C02'): 'see C01',
    ('m14_writer_resume_copy', 'C04'): 'equivalent for overflow errors: after the first RANGE the counter is already past the capacity, no later piece can fit; only visible after a NULL-argument error (C09 catches it)',
    ('m23_rewind_keeps_flags', 'C07'): 'equivalent mutant: at the rewind point the flags still are EXPECTING_FIELD, the removed assignment is redundant',
    ('m23_rewind_keeps_flags', 'C08'): 'equivalent mutant (see C07)',
    ('m29_leave_object_true_on_error', 'C08'): 'invisible to C08 by construction: the final error-flag test of the traversal verdict still fails; C09 catches it',
    ('m38_object_end_no_wipe', 'C12'): 'invisible to C12: reset clears every level for both twins; C06 catches it (and the pinned suite)',
}

recs = {}
for l in open(os.path.join(VERIF, 'sensitivity', 'results.jsonl')):
    r = json.loads(l)
    d = recs.setdefault(r['mutant'], dict(r, results={}))
    if 'suite' in r:
        d['suite'] = r['suite']
    d['results'].update(r['results'])
out = ['# Hand-made mutant catalogue: results (quick tier)', '',
       'Each mutant = one edit of `tools/mutants.py` applied to a scratch worktree of `/repo` HEAD; "suite" = the pinned 3979-test suite on that tree;',
       'then the quick tier of the listed checks with `VERIF_REPO=<worktree>`. D = VIOLATION reported, miss = check stayed green (see note).', '',
       '| mutant | what it breaks | pinned suite | checks | note |', '|---|---|---|---|---|']
nd = nm = 0
caught_by_some = 0
for name in mutants.M:
    if name not in recs:
        continue
    r = recs[name]
    suite = 'passes' if r.get('suite', '').startswith('100%') else 'FAILS (suite notices)'
    cells = []
    notes = []
    for p, v in sorted(r['results'].items()):
        cells.append('%s:%s (%ss)' % (p, 'D' if v['detected'] else 'miss', int(v['seconds'])))
        if v['detected']:
            nd += 1
        else:
            nm += 1
            notes.append(NOTES.get((name, p), 'UNEXPLAINED'))
    if any(v['detected'] for v in r['results'].values()):
        caught_by_some += 1
    out.append('| %s | %s | %s | %s | %s |' % (name, mutants.M[name][2], suite, ' '.join(cells), '; '.join(dict.fromkeys(notes))))
out += ['', '%d mutants; %d caught by at least one check; %d (mutant, check) pairs detected, %d not (all explained above as equivalent or out of that property\'s reach).' % (len(recs), caught_by_some, nd, nm)]
open(os.path.join(VERIF, 'sensitivity', 'SUMMARY.md'), 'w').write('\n'.join(out) + '\n')
print(out[-1])

SEED = os.path.join(VERIF, 'seeded')
out = ['# Independently written breaking changes: results (quick tier)', '',
       'Each change was written by a fresh sub-agent that saw only the property text and a scratch worktree. confirmed = applies to `/repo` HEAD, pinned suite 3979/3979 with it,',
       'the author\'s demonstration fails with it and passes without it (`tools/seeded.py confirm`). Then `git -C /repo apply`, `./check <property> quick`, `git -C /repo checkout -- .`.', '',
       '| id | property | what it needs to manifest | confirmed | check result | first signatures |', '|---|---|---|---|---|---|']
n = d = 0
for i in sorted(os.listdir(SEED)):
    mp = os.path.join(SEED, i, 'meta.json')
    if not os.path.exists(mp):
        continue
    m = json.load(open(mp))
    n += 1
    res = m.get('results', {})
    cells = []
    sigs = []
    for p, v in sorted(res.items()):
        cells.append('%s: %s (%ss)' % (p, 'DETECTED' if v['detected'] else 'MISSED', int(v['seconds'])))
        sigs += v.get('signatures', [])[:2]
    if any(v['detected'] for v in res.values()):
        d += 1
    out.append('| %s | %s | %s | %s | %s | %s |' % (i, m['property'], m.get('needs', ''), 'yes' if m.get('confirmed', {}).get('ok') else 'NO', ' '.join(cells), ' '.join('`%s`' % s for s in sigs[:2])))
    if m.get('history'):
        out[-1] = out[-1][:-1] + ' ' + m['history'] + ' |'
out += ['', '%d changes, %d detected by the check of their own property.' % (n, d)]
open(os.path.join(SEED, 'SUMMARY.md'), 'w').write('\n'.join(out) + '\n')
print(out[-1])
