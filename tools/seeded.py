#!/usr/bin/env python3
"""Seeded changes (/verif/seeded/<id>/): confirm and run the checks against them.

  tools/seeded.py confirm <id>          scratch worktree: patch applies, builds, pinned suite passes, demo fails with / passes without
  tools/seeded.py check <id> [props]    git -C /repo apply, run ./check <prop> quick for the listed (default: meta.property), undo
  tools/seeded.py all [--tier quick]    check every seeded change, print a table

meta.json keys: property, needs, demo (file name), demo_build (shell, {src} = tree with the library, {demo} = path of the demo source, {out} = binary),
                confirmed{...}, results{prop: {...}}
"""
import sys, os, json, subprocess, time, re, shutil

VERIF = os.path.dirname(os.path.dirname(os.path.abspath(__file__)))
SEED = os.path.join(VERIF, 'seeded')


def sh(cmd, **kw):
    return subprocess.run(cmd, shell=isinstance(cmd, str), stdout=subprocess.PIPE, stderr=subprocess.STDOUT, text=True, errors='replace', **kw)


def load(i):
    return json.load(open(os.path.join(SEED, i, 'meta.json')))


def save(i, m):
    json.dump(m, open(os.path.join(SEED, i, 'meta.json'), 'w'), indent=1)


def run_demo(m, i, tree, out):
    demo = os.path.join(SEED, i, m['demo'])
    cmd = m['demo_build'].format(src=tree, demo=demo, out=out)
    r = sh(cmd)
    if r.returncode != 0:
        return 'build-failed: ' + r.stdout[-400:]
    r = sh(out, timeout=120, env=dict(os.environ, ASAN_OPTIONS='detect_leaks=0'))
    return r.returncode


def confirm(i):
    m = load(i)
    wt = '/tmp/seedwt-%d' % os.getpid()
    sh(['git', '-C', '/repo', 'worktree', 'add', '--detach', wt, 'HEAD'])
    res = {}
    try:
        res['demo_without_change'] = run_demo(m, i, wt, '/tmp/seed-demo-%d' % os.getpid())
        r = sh(['git', '-C', wt, 'apply', os.path.join(SEED, i, 'patch.diff')])
        res['applies'] = r.returncode == 0
        if r.returncode != 0:
            res['apply_error'] = r.stdout[-300:]
        else:
            r = sh('cd %s && cmake -G Ninja -B _build -DCMAKE_BUILD_TYPE=RelWithDebInfo -DBUILD_TESTS=ON -DCMAKE_C_FLAGS=-Wno-error >/dev/null && cmake --build _build 2>&1 | tail -2 && ctest --test-dir _build -j16 --timeout 900 2>&1 | tail -3' % wt)
            mm = re.search(r'(\d+)% tests passed, (\d+) tests failed out of (\d+)', r.stdout)
            res['suite'] = mm.group(0) if mm else 'BUILD-FAILED: ' + r.stdout[-300:]
            res['demo_with_change'] = run_demo(m, i, wt, '/tmp/seed-demo-%d' % os.getpid())
    finally:
        sh(['git', '-C', '/repo', 'worktree', 'remove', '--force', wt])
        try:
            os.remove('/tmp/seed-demo-%d' % os.getpid())
        except OSError:
            pass
    res['ok'] = bool(res.get('applies') and res.get('suite', '').startswith('100% tests passed') and res.get('demo_without_change') == 0 and res.get('demo_with_change') not in (0, None) and not str(res.get('demo_with_change')).startswith('build-failed'))
    m['confirmed'] = res
    save(i, m)
    print(i, json.dumps(res))
    return res['ok']


def check_scratch(i, props=None, tier='quick'):
    """same as check() but against a scratch worktree (VERIF_REPO) - for use while something else needs /repo untouched"""
    m = load(i)
    props = props or [m['property']]
    wt = '/tmp/seedchk-%d' % os.getpid()
    sh(['git', '-C', '/repo', 'worktree', 'add', '--detach', wt, 'HEAD'])
    try:
        r = sh(['git', '-C', wt, 'apply', os.path.join(SEED, i, 'patch.diff')])
        if r.returncode != 0:
            print(i, 'patch does not apply:', r.stdout)
            return
        for p in props:
            t0 = time.time()
            r = sh([os.path.join(VERIF, 'check'), p, tier], env=dict(os.environ, VERIF_REPO=wt))
            viol = 'VIOLATION property=' in r.stdout
            sig = re.findall(r'failure signature: (\S+)', r.stdout)
            m.setdefault('results_scratch', {})[p] = dict(detected=viol, exit=r.returncode, seconds=round(time.time() - t0, 1), signatures=sig[:3], tier=tier)
            print('%-12s %s: %s %s (%.0fs) [scratch]' % (i, p, 'DETECTED' if viol else 'MISSED', sig[:2], time.time() - t0))
            if r.returncode not in (0, 1) or (r.returncode == 1 and not viol):
                print(r.stdout[-1500:])
    finally:
        sh(['git', '-C', '/repo', 'worktree', 'remove', '--force', wt])
    save(i, m)


def check(i, props=None, tier='quick'):
    m = load(i)
    props = props or [m['property']]
    st = sh(['git', '-C', '/repo', 'status', '--porcelain', '--untracked-files=no'])
    if st.stdout.strip():
        print('refusing: /repo has local modifications:\n' + st.stdout)
        return
    r = sh(['git', '-C', '/repo', 'apply', os.path.join(SEED, i, 'patch.diff')])
    if r.returncode != 0:
        print(i, 'patch does not apply:', r.stdout)
        return
    try:
        for p in props:
            t0 = time.time()
            r = sh([os.path.join(VERIF, 'check'), p, tier])
            viol = 'VIOLATION property=' in r.stdout
            sig = re.findall(r'failure signature: (\S+)', r.stdout)
            m.setdefault('results', {})[p] = dict(detected=viol, exit=r.returncode, seconds=round(time.time() - t0, 1), signatures=sig[:3], tier=tier)
            print('%-12s %s: %s %s (%.0fs)' % (i, p, 'DETECTED' if viol else 'MISSED', sig[:2], time.time() - t0))
            if r.returncode not in (0, 1) or (r.returncode == 1 and not viol):
                print(r.stdout[-1500:])
    finally:
        sh(['git', '-C', '/repo', 'checkout', '--', '.'])
        # the check wrote evidence for the changed tree: restore the committed evidence
        sh(['git', '-C', VERIF, 'checkout', '--', 'evidence'])
    save(i, m)


GEN = 'gcc -g -std=gnu99 {asan}-DBINSON_PARSER_WITH_PRINT -I {{src}}/include {{demo}} {{src}}/src/binson_parser.c {{src}}/src/binson_writer.c -lpthread -lm -o {{out}}'
CPPB = ('gcc -std=c99 -g -DBINSON_PARSER_WITH_PRINT -I {src}/include -c {src}/src/binson_parser.c -o {out}.p.o && gcc -std=c99 -g -DBINSON_PARSER_WITH_PRINT -I {src}/include -c '
        '{src}/src/binson_writer.c -o {out}.w.o && g++ -std=c++11 -g -DBINSON_PARSER_WITH_PRINT -I {src}/include {demo} {src}/src/binson.cpp {out}.p.o {out}.w.o -o {out}')
SCRIPT = 'printf \'#!/bin/sh\\nexec sh %s {src}\\n\' "$(dirname {demo})/demo.sh" > {out} && chmod +x {out}'


def import_change(srcdir, i, prop, rnd, needs, mode='c'):
    """copies change.diff / demo.* / README.md of a sub-agent's seeded_out directory into seeded/<i>/"""
    import glob
    t = os.path.join(SEED, i)
    os.makedirs(t, exist_ok=True)
    shutil.copy(os.path.join(srcdir, 'change.diff'), os.path.join(t, 'patch.diff'))
    for f in glob.glob(os.path.join(srcdir, 'demo.*')):
        if f.endswith(('.c', '.cpp', '.sh')):
            shutil.copy(f, t)
    if os.path.exists(os.path.join(srcdir, 'README.md')):
        shutil.copy(os.path.join(srcdir, 'README.md'), os.path.join(t, 'README-from-author.md'))
    demo = 'demo.cpp' if os.path.exists(os.path.join(t, 'demo.cpp')) else 'demo.c'
    build = CPPB if demo.endswith('.cpp') else SCRIPT if mode == 'script' else GEN.format(asan='-fsanitize=address ' if mode == 'asan' else '')
    json.dump(dict(property=prop, needs=needs, demo=demo, demo_build=build, round=rnd,
                   origin='round %s: written by a sub-agent acting as an adversary of randomised testing; it saw only the property text and its own scratch worktree' % rnd),
              open(os.path.join(t, 'meta.json'), 'w'), indent=1)
    print('imported', i)


def main():
    a = sys.argv[1:]
    if not a:
        print(__doc__)
        return
    if a[0] == 'confirm':
        for i in a[1:]:
            confirm(i)
    elif a[0] == 'check':
        check(a[1], a[2:] or None)
    elif a[0] == 'import':
        import_change(a[1], a[2], a[3], a[4], a[5], a[6] if len(a) > 6 else 'c')
    elif a[0] == 'scratch':
        check_scratch(a[1], a[2:] or None)
    elif a[0] == 'all':
        tier = a[a.index('--tier') + 1] if '--tier' in a else 'quick'
        for i in sorted(os.listdir(SEED)):
            if os.path.exists(os.path.join(SEED, i, 'meta.json')):
                check(i, None, tier)
    elif a[0] == 'table':
        for i in sorted(os.listdir(SEED)):
            if os.path.exists(os.path.join(SEED, i, 'meta.json')):
                m = load(i)
                res = m.get('results', {})
                print('%-10s %-4s confirmed=%s  %s' % (i, m['property'], m.get('confirmed', {}).get('ok'), '  '.join('%s:%s' % (p, 'DETECTED' if v['detected'] else 'MISSED') for p, v in sorted(res.items()))))


if __name__ == '__main__':
    main()
