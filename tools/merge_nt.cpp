// merge_nt <file.nt>... : prints the number of distinct 64-bit hashes in the union
#include <algorithm>
#include <cstdint>
#include <cstdio>
#include <vector>
int main(int argc, char **argv) {
    std::vector<uint64_t> all;
    for (int i = 1; i < argc; i++) {
        FILE *f = fopen(argv[i], "rb");
        if (!f) continue;
        uint64_t buf[8192];
        size_t k;
        while ((k = fread(buf, 8, 8192, f)) > 0) all.insert(all.end(), buf, buf + k);
        fclose(f);
    }
    std::sort(all.begin(), all.end());
    all.erase(std::unique(all.begin(), all.end()), all.end());
    printf("%zu\n", all.size());
    return 0;
}
