#!/bin/bash
# usage: tools/run_some.sh <tier> <ID>...   (honours VERIF_REPO)
tier=$1; shift
cd "$(dirname "$0")/.."
for p in "$@"; do
  s=$(date +%s)
  out=$(./check $p $tier 2>&1); rc=$?
  e=$(date +%s)
  echo "$p rc=$rc $((e-s))s :: $(echo "$out" | grep -E 'seed=' | tail -1)"
  if [ $rc -ne 0 ]; then echo "$out" | grep -E "VIOLATION|signature|INFRA|BUILD" | head -5; fi
done
