#!/usr/bin/env python3
"""Sensitivity experiments: apply one deliberate breakage at a time to a scratch
worktree of /repo (never to /repo itself), optionally run the pinned test
suite, run the quick tier of the checks that should notice, record the outcome.

  tools/mutants.py list
  tools/mutants.py run <name>... [--suite] [--checks C01,C02] [--tier quick]
  tools/mutants.py run all [--suite]
Results are appended to /verif/sensitivity/results.jsonl.
"""
import sys, os, json, subprocess, time, shutil, re

VERIF = os.path.dirname(os.path.dirname(os.path.abspath(__file__)))
P = 'src/binson_parser.c'
W = 'src/binson_writer.c'
CPP = 'src/binson.cpp'
H = 'include/binson_parser.h'

# name: (expected-to-catch, [(file, old, new, count)], description)
M = {
 'm01_boundary_off_by_one': (['C01'], [(P, 'if (c > max) {', 'if (c > max + 1) {', 1)], '_check_boundary accepts one byte past the end'),
 'm02_no_maxdepth_check': (['C01', 'C02'], [(P, '(parser->depth < parser->max_depth)) {', '(parser->depth < UINT8_MAX)) {', 1)], 'object depth no longer bounded by max_depth (state array overflow)'),
 'm03_rewind_one_more': (['C01', 'C07', 'C16'], [(P, 'parser->buffer_used -= bytes_consumed;', 'parser->buffer_used -= bytes_consumed + 1;', 1)], 'failed lookup rewinds one byte too far'),
 'm04_negative_length': (['C01', 'C02'], [(P, 'if (!((0 <= length_value) && (length_value <= INT32_MAX))) {', 'if (!(length_value <= INT32_MAX)) {', 1)], 'negative string/bytes lengths accepted'),
 'm05_duplicate_names': (['C02', 'C08'], [(P, 'if (r >= 0) {\n                        parser->error_flags = BINSON_ERROR_FORMAT;', 'if (r > 0) {\n                        parser->error_flags = BINSON_ERROR_FORMAT;', 1)], 'duplicate field names accepted'),
 'm06_int32_nonminimal': (['C02', 'C08'], [(P, 'else if (length_data->bsize == 4 && (*value < INT16_MIN || *value > INT16_MAX)) {', 'else if (length_data->bsize == 4) {', 1)], 'non-minimal 4-byte integers/lengths accepted'),
 'm07_trailing_bytes_obj': (['C02', 'C08'], [(P, '''                        parser->current_state = &parser->state[0];
                        if (parser->buffer_used != parser->buffer_size) {
                            parser->error_flags = BINSON_ERROR_FORMAT;
                        }''', '''                        parser->current_state = &parser->state[0];''', 1)], 'trailing bytes after the root object accepted'),
 'm08_array_depth_wrap': (['C02'], [(P, 'if (state->array_depth >= UINT8_MAX) {', 'if (state->array_depth > UINT8_MAX) {', 1)], 'array nesting limit never fires (8-bit counter wraps at 256)'),
 'm09_depth_le': (['C01', 'C02'], [(P, '(parser->depth < parser->max_depth)) {', '(parser->depth <= parser->max_depth)) {', 1)], 'one object level too many allowed (state[max_depth] written)'),
 'm10_sign_extend_1byte_only': (['C03', 'C10'], [(P, "uint64_t ui64 = (length_data->bptr[length_data->bsize - 1] & 0x80) ? ~0ULL : 0;", "uint64_t ui64 = ((length_data->bsize < 8) && (length_data->bptr[length_data->bsize - 1] & 0x80) && (length_data->bsize != 4)) ? ~0ULL : 0;", 1)], '4-byte integers not sign-extended'),
 'm12_get_integer_no_type_gate': (['C03', 'C06'], [(P, '''        (NULL != parser->current_state) &&
        (BINSON_TYPE_INTEGER == parser->current_state->current_type)) {
        return parser->current_state->current_value.integer_value;''', '''        (NULL != parser->current_state)) {
        return parser->current_state->current_value.integer_value;''', 1)], 'get_integer returns the union bits for any type'),
 'm13_writer_ge': (['C04', 'C05'], [(W, 'if (c > writer->buffer_size) {', 'if (c >= writer->buffer_size) {', 1)], 'writer reports RANGE when the output fits exactly'),
 'm14_writer_resume_copy': (['C04', 'C09'], [(W, 'if (writer->error_flags == BINSON_ERROR_NONE) {\n        memmove', 'if ((c <= writer->buffer_size) && (NULL != writer->buffer)) {\n        memmove', 1)], 'writer stores later pieces that fit after an overflow'),
 'm15_counter_stops': (['C04', 'C09'], [(W, '    writer->buffer_used += data->bsize;\n    return', '    if (writer->error_flags == BINSON_ERROR_NONE) {\n        writer->buffer_used += data->bsize;\n    }\n    return', 1)], 'counter stops counting after the first error'),
 'm16_int16_max': (['C05', 'C10'], [(W, 'else if ((length >= INT16_MIN) && (length <= INT16_MAX)) {', 'else if ((length >= INT16_MIN) && (length < INT16_MAX)) {', 1)], '32767 written with 4 bytes'),
 'm17_int8_min': (['C05', 'C10'], [(W, 'if ((length >= INT8_MIN) && (length <= INT8_MAX)) {', 'if ((length > INT8_MIN) && (length <= INT8_MAX)) {', 1)], '-128 written with 2 bytes'),
 'm19_revert_D2': (['C06', 'C08', 'C11'], [(P, 'else if (state->flags == BINSON_STATE_IN_OBJ_EXPECTING_FIELD) {\n                    state->flags = BINSON_STATE_IN_OBJ_EXPECTING_VALUE;\n                }\n                break;\n            case BINSON_STATE_PARSED_ARRAY_END:', 'else {\n                    state->flags = BINSON_STATE_IN_OBJ_EXPECTING_VALUE;\n                }\n                break;\n            case BINSON_STATE_PARSED_ARRAY_END:', 1)], 'defect D2 re-introduced'),
 'm20_revert_D3': (['C06', 'C11'], [(P, '''                    if (state->array_depth > 0) {
                        state->flags = BINSON_STATE_IN_ARRAY_1;
                    }

''', '', 1)], 'defect D3 re-introduced'),
 'm21_leave_root_array_false': (['C06', 'C08'], [(P, '''    bool ret = _advance(parser, BINSON_ADVANCE_LEAVE_ARRAY);
    if (!ret) {
        return (parser->error_flags == BINSON_ERROR_NONE);
    }''', '''    bool ret = _advance(parser, BINSON_ADVANCE_LEAVE_ARRAY);
    if (!ret) {
        return (parser->error_flags == BINSON_ERROR_NONE) && (parser->buffer_used != parser->buffer_size);
    }''', 1)], 'leaving the root array of an array-rooted document reports failure'),
 'm22_cmp_ignores_length': (['C07', 'C02'], [(P, 'return (r == 0) ? (int) (a->bsize - b->bsize) : r;', 'return (r == 0) ? (int) (int8_t) (a->bsize - b->bsize) : r;', 1)], 'length difference truncated to 8 bits: names whose lengths differ by 256 compare equal, by 128..255 in the wrong order'),
 'm23_rewind_keeps_flags': (['C07', 'C08'], [(P, '''                            parser->buffer_used -= bytes_consumed;
                            state->flags = BINSON_STATE_IN_OBJ_EXPECTING_FIELD;''', '''                            parser->buffer_used -= bytes_consumed;''', 1)], 'failed lookup does not restore EXPECTING_FIELD'),
 'm25_ensure_no_wrong_type': (['C07'], [(P, '''            return true;
        }
        parser->error_flags = BINSON_ERROR_WRONG_TYPE;
    }

    return false;
}


bool binson_parser_go_into_object''', '''            return true;
        }
    }

    return false;
}


bool binson_parser_go_into_object''', 1)], 'field_ensure does not set WRONG_TYPE'),
 'm26_order_only_in_verify': (['C08'], [(P, 'if (state->current_name.bptr != NULL) {\n                    int r = _cmp_name(&state->current_name, &consumed);', 'if ((state->current_name.bptr != NULL) && ((orig_object_depth == parser->depth) || CHECKBITMASK(scan_flags, BINSON_ADVANCE_VERIFY))) {\n                    int r = _cmp_name(&state->current_name, &consumed);', 1)], 'field order is not checked inside skipped containers'),
 'm28_minwidth_only_at_cursor_level': (['C08'], [(P, 'if (!_parse_integer(&consumed, &state->current_value.integer_value, true)) {', 'if (!_parse_integer(&consumed, &state->current_value.integer_value, true) && ((orig_object_depth == parser->depth) || CHECKBITMASK(scan_flags, BINSON_ADVANCE_VERIFY))) {', 1)], 'non-minimal integers tolerated inside skipped containers'),
 'm29_leave_object_true_on_error': (['C09', 'C08'], [(P, '''    bool ret = _advance(parser, BINSON_ADVANCE_LEAVE_OBJECT);
    if (!ret) {
        return (parser->error_flags == BINSON_ERROR_NONE);
    }''', '''    bool ret = _advance(parser, BINSON_ADVANCE_LEAVE_OBJECT);
    if (!ret) {
        return (parser->error_flags != BINSON_ERROR_FORMAT);
    }''', 1)], 'leave_object returns true although a RANGE/depth error is pending'),
 'm30_get_boolean_no_error_gate': (['C09'], [(P, '''    if ((NULL != parser) &&
        (BINSON_ERROR_NONE == parser->error_flags) &&
        (NULL != parser->current_state) &&
        (BINSON_TYPE_BOOLEAN == parser->current_state->current_type)) {''', '''    if ((NULL != parser) &&
        (NULL != parser->current_state) &&
        (BINSON_TYPE_BOOLEAN == parser->current_state->current_type)) {''', 1)], 'get_boolean ignores the error flag'),
 'm31_next_ensure_clears': (['C09'], [(P, '''    if (!binson_parser_next(parser)) {
        return false;
    }

    if (parser->current_state->current_type != field_type) {''', '''    if (!binson_parser_next(parser)) {
        if (parser->error_flags == BINSON_ERROR_WRONG_TYPE) {
            parser->error_flags = BINSON_ERROR_NONE;
        }
        return false;
    }

    if (parser->current_state->current_type != field_type) {''', 1)], 'next_ensure clears a pending WRONG_TYPE'),
 'm35_raw_short_by_one': (['C11', 'C06'], [(P, '''            _advance(parser, BINSON_ADVANCE_LEAVE_ARRAY)) {
            raw->bsize = parser->buffer_used - current_pos;''', '''            _advance(parser, BINSON_ADVANCE_LEAVE_ARRAY)) {
            raw->bsize = parser->buffer_used - current_pos - (parser->current_state->array_depth > 1 ? 1 : 0);''', 1)], 'raw span of an array nested two deep is one byte short'),
 'm37_reset_clears_only_first_level': (['C12'], [(P, 'memset(parser->state, 0x00U, (sizeof(binson_state)*parser->max_depth));', 'memset(parser->state, 0x00U, sizeof(binson_state));', 1)], 'reset clears only state[0]'),
 'm38_object_end_no_wipe': (['C12', 'C06'], [(P, '                    memset(parser->current_state, 0x00, sizeof(binson_state));\n', '', 1)], 'OBJECT_END no longer wipes the level (stale previous name)'),
 'm39_verify_no_reset': (['C12'], [(P, '''    if (ret) {
        binson_parser_reset(parser);
    }
    return ret;''', '''    return ret;''', 1)], 'successful verify leaves the cursor at the end'),
 'm40_writer_reset_keeps_error': (['C12', 'C09'], [(W, '''    writer->buffer_used = 0;
    writer->error_flags = BINSON_ERROR_NONE;

    return true;''', '''    writer->buffer_used = 0;
    if (writer->error_flags != BINSON_ERROR_NULL) {
        writer->error_flags = BINSON_ERROR_NONE;
    }

    return true;''', 1)], 'writer reset keeps a NULL error'),
 'm41_available_not_decremented': (['C13'], [(P, '''        pbuf = &ctx->buffer[ctx->buffer_used];
        if (available > 0) {
            available--;
        }
    }

    if (*pstate == 0x04) {''', '''        pbuf = &ctx->buffer[ctx->buffer_used];
    }

    if (*pstate == 0x04) {''', 1)], 'to_string: available not decremented after an array comma (1-byte overrun)'),
 'm42_size_not_incremented': (['C13'], [(P, '    (*buf_size)++;\n    return false;', '    return false;', 1)], 'to_string reports the text length without the terminator'),
 'm43_hex_precheck': (['C13'], [(P, '(state->current_value.bytes_value.bsize*2) + 2, ctx->buffer_size)) {', '(state->current_value.bytes_value.bsize*2) + 1, ctx->buffer_size)) {', 1)], 'to_string hex pre-check one short'),
 'm44_ret_gt_available': (['C13'], [(P, '    if (ret >= available) {\n        ctx->buffer_full = true;\n    }', '    if (ret > available) {\n        ctx->buffer_full = true;\n    }', 1)], 'to_string accepts a capacity with no room for the terminator'),
 'm45_revert_D4': (['C14'], [(P, '''            else {
                *pstate = 0x02;
            }
            printf("}");''', '''            printf("}");''', 1)], 'defect D4 re-introduced in print only'),
 'm46_hex_no_padding': (['C14'], [(P, 'printf("%02x", state->current_value.bytes_value.bptr[i]);', 'printf("%x", state->current_value.bytes_value.bptr[i]);', 1)], 'print renders bytes < 0x10 with one hex digit'),
 'm47_array_end_state': (['C14'], [(P, '''            if (state->array_depth == 0) {
                *pstate = 0x02;
            }
            ret = snprintf(pbuf, available, "]");''', '''            ret = snprintf(pbuf, available, "]");''', 1)], 'to_string: separator state not reset after an array closes inside an object'),
 'm48_revert_D5': (['C15'], [(CPP, '''void Binson::deserialize(const std::vector<uint8_t> &data)
{
    deserialize(data.data(), data.size());
}''', '''void Binson::deserialize(const std::vector<uint8_t> &data)
{
    BINSON_PARSER_DEF(p);
    clear();

    binson_parser_init(&p, const_cast<uint8_t*>(data.data()), data.size());
    binson_parser_go_into_object(&p);
    deseralizeItems(&p);
    binson_parser_leave_object(&p);
}''', 1)], 'defect D5 re-introduced'),
 'm49_no_range_retry': (['C15'], [(CPP, 'if (w.error_flags == BINSON_ERROR_RANGE)\n    {', 'if (w.error_flags == BINSON_ERROR_RANGE && binson_writer_get_counter(&w) < 4096)\n    {', 1)], 'serialize() gives up above 4096 bytes'),
 'm50_cpp_leave_unchecked': (['C15'], [(CPP, '''    deseralizeItems(p);
    ifRuntimeError(binson_parser_leave_object(p), "Parse error");
}''', '''    deseralizeItems(p);
    binson_parser_leave_object(p);
}''', 1)], 'deserialize(parser) ignores the final leave (trailing garbage accepted)'),
 'm52_malloc_in_to_string': (['C17'], [(P, '''    struct _to_string_ctx ctx;
    ctx.buffer = pbuf;''', '''    void *scratch = malloc(16);
    free(scratch);
    struct _to_string_ctx ctx;
    ctx.buffer = pbuf;''', 1), (P, '#include <stdio.h>', '#include <stdio.h>\n#include <stdlib.h>', 1)], 'to_string allocates scratch memory'),
 'm53_vla_in_cmp_name': (['C17'], [(P, '''static int _cmp_name(bbuf *a, bbuf *b)
{
    int r = memcmp(a->bptr,''', '''static int _cmp_name(bbuf *a, bbuf *b)
{
    volatile uint8_t tmp[MIN(a->bsize, b->bsize) + 1];
    tmp[0] = 0;
    (void) tmp;
    int r = memcmp(a->bptr,''', 1)], 'VLA sized by the name length in _cmp_name'),
 'm54_static_pack_buffer': (['C17'], [(W, '    uint8_t pack_buffer[sizeof(int64_t) + 1];', '    static uint8_t pack_buffer[sizeof(int64_t) + 1];', 1)], 'static pack buffer in _write_token'),
 'm59_quadratic_rescan_in_helper': (['C16'], [(P, '''                state->current_name.bptr = consumed.bptr;
                state->current_name.bsize = consumed.bsize;''', '''                {
                    size_t chk_i;
                    volatile uint8_t chk = 0;
                    for (chk_i = 0; chk_i < parser->buffer_used; chk_i += 16) {
                        chk ^= parser->buffer[chk_i];
                    }
                }
                state->current_name.bptr = consumed.bptr;
                state->current_name.bsize = consumed.bsize;''', 1)], 'every field name triggers a re-scan of the buffer up to the cursor (quadratic work that does not pass the token callback; all results stay correct)'),
 'm56_cmp_name_char_loop': (['C18', 'C07', 'C02'], [(P, '''    int r = memcmp(a->bptr,
                   b->bptr,
                   MIN(a->bsize, b->bsize));
''', '''    int r = 0;
    size_t i;
    const char *pa = (const char *) a->bptr;
    const char *pb = (const char *) b->bptr;
    for (i = 0; (i < MIN(a->bsize, b->bsize)) && (r == 0); i++) {
        r = pa[i] - pb[i];
    }
''', 1)], '_cmp_name compares plain chars (signedness-dependent order)'),
 'm57_signed_shift': (['C18', 'C03'], [(P, '''    uint64_t ui64 = (length_data->bptr[length_data->bsize - 1] & 0x80) ? ~0ULL : 0;
    size_t i;

    for (i = length_data->bsize; i > 0; i--) {
        ui64 <<= 8;
        ui64 |= length_data->bptr[i-1];
    }
''', '''    int64_t ui64 = (length_data->bptr[length_data->bsize - 1] & 0x80) ? -1 : 0;
    size_t i;

    for (i = length_data->bsize; i > 0; i--) {
        ui64 <<= 8;
        ui64 |= length_data->bptr[i-1];
    }
''', 1)], 'signed left shift of negative values in _parse_integer (UB; same result on these compilers, trapped by UBSan)'),
 'm58_char_array_depth': (['C18', 'C02'], [(H, '    uint_fast8_t    array_depth;', '    char            array_depth;', 1)], 'array_depth stored in plain char (limit 127 where char is signed)'),
}


def sh(cmd, **kw):
    return subprocess.run(cmd, stdout=subprocess.PIPE, stderr=subprocess.STDOUT, text=True, errors='replace', **kw)


def main():
    a = sys.argv[1:]
    if not a or a[0] == 'list':
        for k, v in M.items():
            print('%-36s %-18s %s' % (k, ','.join(v[0]), v[2]))
        return 0
    names = [x for x in a[1:] if not x.startswith('--')]
    if names == ['all']:
        names = list(M)
    suite = '--suite' in a
    tier = 'quick'
    only = None
    for i, x in enumerate(a):
        if x == '--checks':
            only = a[i + 1].split(',')
        if x == '--tier':
            tier = a[i + 1]
    names = [n for n in names if n in M]
    wt = '/tmp/mutwt-%d' % os.getpid()
    sh(['git', '-C', '/repo', 'worktree', 'add', '--detach', wt, 'HEAD'])
    os.makedirs(os.path.join(VERIF, 'sensitivity'), exist_ok=True)
    try:
        for n in names:
            exp, patches, desc = M[n]
            sh(['git', '-C', wt, 'checkout', '--', '.'])
            ok = True
            for f, old, new, cnt in patches:
                p = os.path.join(wt, f)
                s = open(p).read()
                if s.count(old) != cnt:
                    print('%s: pattern occurs %d times in %s (expected %d) - SKIPPED' % (n, s.count(old), f, cnt))
                    ok = False
                    break
                open(p, 'w').write(s.replace(old, new))
            if not ok:
                continue
            rec = dict(mutant=n, description=desc, expected=exp, tier=tier, results={}, at=time.strftime('%Y-%m-%dT%H:%M:%S'))
            if suite:
                b = os.path.join(wt, '_build')
                r = sh(['bash', '-c', 'cd %s && cmake -G Ninja -B _build -DCMAKE_BUILD_TYPE=RelWithDebInfo -DBUILD_TESTS=ON -DCMAKE_C_FLAGS=-Wno-error >/dev/null && cmake --build _build 2>&1 | tail -3 && ctest --test-dir _build -j16 --timeout 900 2>&1 | tail -3' % wt])
                m = re.search(r'(\d+)% tests passed, (\d+) tests failed out of (\d+)', r.stdout)
                rec['suite'] = m.group(0) if m else 'BUILD-FAILED: ' + r.stdout[-300:]
                print('%s suite: %s' % (n, rec['suite']))
            for c in (only or exp):
                t0 = time.time()
                env = dict(os.environ, VERIF_REPO=wt)
                r = sh([os.path.join(VERIF, 'check'), c, tier], env=env)
                dt = time.time() - t0
                sig = re.findall(r'failure signature: (\S+)', r.stdout)
                viol = 'VIOLATION property=' in r.stdout
                rec['results'][c] = dict(detected=viol, exit=r.returncode, seconds=round(dt, 1), signatures=sig[:4])
                print('%s %s: %s %s (%.0fs)' % (n, c, 'DETECTED' if viol else 'missed', sig[:2], dt))
                if r.returncode not in (0, 1) or (r.returncode == 1 and not viol):
                    print(r.stdout[-1500:])
            with open(os.path.join(VERIF, 'sensitivity', 'results.jsonl'), 'a') as f:
                f.write(json.dumps(rec) + '\n')
    finally:
        sh(['git', '-C', '/repo', 'worktree', 'remove', '--force', wt])
    return 0


if __name__ == '__main__':
    sys.exit(main())
